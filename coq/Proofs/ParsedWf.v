(* Proofs/ParsedWf.v — what the parser returns is representable, part 2: headers, payload kinds
   and the whole message.  Main result [parsed_wf]: every message [dlt_message] returns whose
   re-serialisation has the length its own header declares satisfies [wf_message]. *)
From Coq Require Import Lia ZifyBool ZifyN ZifyNat.
From DltV.Model Require Import Bytes RustInt Utf8 Nom Dlt Parse.
From DltV.Model Require Run.
From DltV.Proofs Require Import BytesBasics Fields Utf8Lemmas ZString Codes ParseLemmas ParsedWfArgs.
From DltV.Spec Require Import WellFormed.
Open Scope N_scope.

Notation is_some := WellFormed.is_some.

(* [has_storage m := match m_storage m with Some _ => true | None => false end], Model/Run.v *)
Notation has_storage := Run.has_storage.

(* ---------- storage header ---------- *)
Lemma dlt_storage_header_wf bs shs after :
  dlt_storage_header bs = POk shs after ->
  (shs = None /\ after = []) \/ (exists s k, shs = Some (s, k) /\ wf_storage s = true).
Proof.
  unfold dlt_storage_header, forward_to_next_storage_header.
  destruct (len bs <? 16); [discriminate|].
  destruct (find_pattern bs) as [k|].
  - intros H. right.
    apply pbind_ok_inv in H as (t1 & i1 & E1 & H). apply pbind_ok_inv in H as (t2 & i2 & E2 & H).
    apply pbind_ok_inv in H as (secs & i3 & E3 & H). apply pbind_ok_inv in H as (mic & i4 & E4 & H).
    apply pbind_ok_inv in H as (ecu & i5 & E5 & H). injection H as <- <-.
    eexists _, _. split; [reflexivity|]. unfold wf_storage. cbn [sh_ts sh_ecu ts_secs ts_micros].
    rewrite (zstring_wf_id _ _ _ E5).
    pose proof (uint_ltb _ _ _ _ _ E3) as H3. pose proof (uint_ltb _ _ _ _ _ E4) as H4.
    change (8 * N.of_nat 4) with 32 in H3, H4. rewrite H3, H4. reflexivity.
  - intros H. injection H as <- <-. now left.
Qed.

(* ---------- standard header ---------- *)
Lemma opt_id_wf (c : bool) i (o : option (list byte)) rest :
  (if c then pmap Some (parse_ecu_id i) else POk None i) = POk o rest -> wf_opt wf_id o = true.
Proof.
  destruct c; intros H.
  - apply pmap_ok_inv in H as (s & Es & ->). cbn [wf_opt]. eapply zstring_wf_id, Es.
  - injection H as <- _. reflexivity.
Qed.
Lemma opt_u32_wf (c : bool) i (o : option N) rest :
  (if c then pmap Some (uint BE 4 i) else POk None i) = POk o rest ->
  wf_opt (fun v => v <? 2 ^ 32) o = true.
Proof.
  destruct c; intros H.
  - apply pmap_ok_inv in H as (s & Es & ->). cbn [wf_opt]. exact (uint_ltb _ _ _ _ _ Es).
  - injection H as <- _. reflexivity.
Qed.

Lemma dlt_standard_header_wf i h rest : dlt_standard_header i = POk h rest -> wf_std h = true.
Proof.
  unfold dlt_standard_header. intros H.
  apply pbind_ok_inv in H as (htyp & i0 & E0 & H).
  apply pbind_ok_inv in H as (mcnt & i1 & E1 & H).
  apply pbind_ok_inv in H as (overall & i2 & E2 & H).
  apply pbind_ok_inv in H as (ecu & i3 & E3 & H).
  apply pbind_ok_inv in H as (session & i4 & E4 & H).
  apply pbind_ok_inv in H as (tms & i5 & E5 & H).
  destruct (overall <? calculate_all_headers_length htyp); [discriminate|].
  injection H as <- <-.
  unfold wf_std. cbn [h_version h_mcnt h_ecu h_session h_timestamp].
  rewrite (opt_id_wf _ _ _ _ E3), (opt_u32_wf _ _ _ _ E4), (opt_u32_wf _ _ _ _ E5).
  pose proof (u8_value _ _ _ E1) as Hm. apply N.ltb_lt in Hm. rewrite Hm.
  rewrite land7, !andb_true_r. apply N.ltb_lt, N.mod_lt. discriminate.
Qed.

(* ---------- extended header ---------- *)
Lemma dlt_extended_header_wf i x rest : dlt_extended_header i = POk x rest -> wf_ext x = true.
Proof.
  unfold dlt_extended_header. intros H.
  apply pbind_ok_inv in H as (msin & i0 & E0 & H).
  apply pbind_ok_inv in H as (noar & i1 & E1 & H).
  apply pbind_ok_inv in H as (apid & i2 & E2 & H).
  apply pbind_ok_inv in H as (ctid & i3 & E3 & H).
  injection H as <- _. unfold wf_ext. cbn [e_noar e_mtype e_apid e_ctid].
  rewrite (zstring_wf_id _ _ _ E2), (zstring_wf_id _ _ _ E3).
  rewrite (message_type_decode_wf _ (u8_value _ _ _ E0)).
  pose proof (u8_value _ _ _ E1) as Hn. apply N.ltb_lt in Hn. rewrite Hn. reflexivity.
Qed.

(* ---------- lengths of the written headers ---------- *)
Lemma put_zstring_len4 s : len s <= 4 -> len (put_zstring s 4) = 4.
Proof.
  intros H. unfold put_zstring, zeros. rewrite len_app, len_repeat. unfold len in *. lia.
Qed.
Lemma wf_id_len s : wf_id s = true -> len s <= 4.
Proof.
  unfold wf_id. intros H. apply andb_true_iff in H as [H _]. apply andb_true_iff in H as [H _].
  now apply N.leb_le.
Qed.

Lemma len_storage_header_bytes s : wf_storage s = true -> len (storage_header_bytes s) = 16.
Proof.
  unfold wf_storage. intros H. apply andb_true_iff in H as [_ H]. apply wf_id_len in H.
  unfold storage_header_bytes. rewrite !len_app, !len_put_uint, (put_zstring_len4 _ H). reflexivity.
Qed.

Lemma len_std_header_bytes' h : wf_std h = true ->
  len (std_header_bytes h) + (if h_has_ext h then 10 else 0) + h_payload_length h = overall_length_raw h.
Proof.
  unfold wf_std. intros H. apply andb_true_iff in H as [H _]. apply andb_true_iff in H as [H _].
  apply andb_true_iff in H as [_ He].
  unfold std_header_bytes, overall_length_raw. rewrite !len_app, len_put_uint.
  assert (L1 : len (match h_ecu h with Some id => put_zstring id 4 | None => [] end)
               = match h_ecu h with Some _ => 4 | None => 0 end).
  { destruct (h_ecu h) as [id|]; [|reflexivity]. cbn [wf_opt] in He. apply put_zstring_len4, wf_id_len, He. }
  assert (L2 : len (match h_session h with Some v => put_uint BE 4 v | None => [] end)
               = match h_session h with Some _ => 4 | None => 0 end)
    by (destruct (h_session h); [apply len_put_uint | reflexivity]).
  assert (L3 : len (match h_timestamp h with Some v => put_uint BE 4 v | None => [] end)
               = match h_timestamp h with Some _ => 4 | None => 0 end)
    by (destruct (h_timestamp h); [apply len_put_uint | reflexivity]).
  rewrite L1, L2, L3. change (len [n2b (header_type_byte h); n2b (h_mcnt h)]) with 2. lia.
Qed.

Lemma len_ext_header_bytes' x : wf_ext x = true -> len (ext_header_bytes x) = 10.
Proof.
  unfold wf_ext. intros H. apply andb_true_iff in H as [H Hc]. apply andb_true_iff in H as [_ Ha].
  apply wf_id_len in Ha, Hc.
  unfold ext_header_bytes. rewrite !len_app, !put_zstring_len4 by assumption. reflexivity.
Qed.

(* ---------- network trace: dropped arguments shorten the re-serialisation ---------- *)
Definition nw_bytes (e : endian) (sl : list (list byte)) : list byte :=
  payload_bytes e (PNetworkTrace sl).

Lemma nw_bytes_cons e s sl : len (nw_bytes e (s :: sl)) = 6 + len s + len (nw_bytes e sl).
Proof.
  unfold nw_bytes. cbn [payload_bytes flat_map]. rewrite !len_app, !len_put_uint. lia.
Qed.

(* bytes consumed (at least) = bytes re-serialised + one for every dropped argument *)
Lemma nw_count e args :
  args_min args + len (raw_slices args) = len (nw_bytes e (raw_slices args)) + len args.
Proof.
  induction args as [|a args IH]; [reflexivity|].
  unfold raw_slices in *. cbn [flat_map args_min]. unfold arg_min.
  destruct (a_value a); cbn [val_min app]; rewrite ?nw_bytes_cons, ?len_cons; lia.
Qed.

Lemma raw_slices_len_le args : len (raw_slices args) <= len args.
Proof.
  induction args as [|a args IH]; [reflexivity|].
  unfold raw_slices in *. cbn [flat_map]. destruct (a_value a); cbn [app]; rewrite ?len_cons; lia.
Qed.

Lemma raw_slices_small args bound :
  args_min args <= bound -> forallb (fun s : list byte => len s <=? bound) (raw_slices args) = true.
Proof.
  induction args as [|a args IH]; intros H; [reflexivity|].
  unfold raw_slices in *. cbn [flat_map args_min] in *. unfold arg_min in H.
  destruct (a_value a); cbn [val_min app forallb] in *; try (apply IH; lia).
  rewrite IH by lia. destruct (N.leb_spec (len bs) bound); [reflexivity | lia].
Qed.

(* ---------- payload ---------- *)
Definition verbose_of (ext : option ext_header) : bool :=
  match ext with Some x => e_verbose x | None => false end.
Definition noar_of (ext : option ext_header) : N :=
  match ext with Some x => e_noar x | None => 0 end.

Lemma dlt_payload_wf e i ext pl p rest :
  wf_opt wf_ext ext = true ->
  dlt_payload e i (verbose_of ext) pl (noar_of ext) (option_map e_mtype ext) = POk p rest ->
  pl <= 65535 ->
  len (payload_bytes e p) = pl ->
  wf_kind ext p = true.
Proof.
  intros Wx H Hpl Hlen. unfold dlt_payload in H.
  destruct (verbose_of ext) eqn:Ev.
  - (* verbose *)
    destruct ext as [x|]; [|discriminate]. cbn [verbose_of noar_of option_map] in *.
    cbn [wf_opt] in Wx. unfold wf_ext in Wx. apply andb_true_iff in Wx as [Wx _].
    apply andb_true_iff in Wx as [Wx _]. apply andb_true_iff in Wx as [Hnoar _]. apply N.ltb_lt in Hnoar.
    apply pbind_ok_inv in H as (pb & r & Et & H). apply take_ok_inv in Et as [St ->].
    pose proof (splits_len _ _ _ St) as Li.
    assert (Lpb : len (firstn (N.to_nat pl) i) = pl) by (apply len_firstn_N; lia).
    destruct (count (dlt_argument e) (N.to_nat (e_noar x)) (firstn (N.to_nat pl) i)) as [args r'| | | |] eqn:Ec;
      try discriminate.
    apply count_arguments_ok in Ec as (Hn & k & Sk & Mk & Wk).
    pose proof (splits_len _ _ _ Sk) as Lk.
    assert (Hargs : len args = e_noar x) by (unfold len; lia).
    specialize (Wk ltac:(lia)).
    assert (NW : forall n, e_mtype x = MNwTrace n -> p = PNetworkTrace (raw_slices args) ->
                 wf_kind (Some x) p = true).
    { intros n Em ->. cbn [wf_kind]. rewrite Ev, Em. cbn [is_nw_trace].
      pose proof (nw_count e args) as C. pose proof (raw_slices_len_le args) as Lr.
      fold (nw_bytes e (raw_slices args)) in Hlen.
      assert (E1 : len (raw_slices args) = e_noar x) by lia.
      rewrite (raw_slices_small args 65535) by lia.
      destruct (N.eqb_spec (e_noar x) (len (raw_slices args))); [|lia].
      destruct (N.leb_spec (len (raw_slices args)) 255); [reflexivity | lia]. }
    assert (VB : is_nw_trace (e_mtype x) = false -> p = PVerbose args -> wf_kind (Some x) p = true).
    { intros Em ->. cbn [wf_kind]. rewrite Ev, Em, Wk.
      destruct (N.eqb_spec (e_noar x) (len args)); [|lia].
      destruct (N.leb_spec (len args) 255); [reflexivity | lia]. }
    destruct (e_mtype x) as [l|a|n|c|a b] eqn:Em; injection H as <- _;
      try (apply VB; reflexivity). eapply NW; reflexivity.
  - (* non-verbose *)
    assert (NV : (if pl <? 4 then PFailure
                  else let* (id, i1) := uint e 4 i in let* (bs, rest) := take (pl - 4) i1 in POk (PNonVerbose id bs) rest)
                 = POk p rest -> exists id bs, p = PNonVerbose id bs /\ (id <? 2 ^ 32) = true).
    { destruct (pl <? 4); [discriminate|]. intros Hq.
      apply pbind_ok_inv in Hq as (id & i1 & E1 & Hq). apply pbind_ok_inv in Hq as (bs & r & E2 & Hq).
      injection Hq as <- _. exists id, bs. split; [reflexivity|]. exact (uint_ltb _ _ _ _ _ E1). }
    destruct ext as [x|]; cbn [verbose_of noar_of option_map] in *.
    + destruct (e_mtype x) as [l|a|n|c|a b] eqn:Em;
        try (apply NV in H as (id & bs & -> & Hid); cbn [wf_kind]; rewrite Ev, Em, Hid; reflexivity).
      destruct (pl <? 1); [discriminate|].
      apply pbind_ok_inv in H as (id & i1 & E1 & H). apply pbind_ok_inv in H as (bs & r & E2 & H).
      injection H as <- _. cbn [wf_kind]. rewrite Ev, Em. cbn [negb is_control andb].
      apply control_from_value_wf.
      destruct i as [|b i']; [discriminate|]. injection E1 as <- _. apply b2n_lt.
    + apply NV in H as (id & bs & -> & Hid). exact Hid.
Qed.

(* ---------- everything behind the storage header ---------- *)
Lemma dlt_message_after_wf shs after f m rest :
  dlt_message_after shs after f = POk (Item m) rest ->
  m_storage m = option_map fst shs /\
  wf_std (m_header m) = true /\
  h_has_ext (m_header m) = is_some (m_ext m) /\
  wf_opt wf_ext (m_ext m) = true /\
  overall_length_raw (m_header m) <= 65535 /\
  (len (payload_bytes (h_endian (m_header m)) (m_payload m)) = h_payload_length (m_header m) ->
   wf_kind (m_ext m) (m_payload m) = true).
Proof.
  unfold dlt_message_after. intros H.
  apply pbind_ok_inv in H as (h & after_std & Eh & H).
  destruct (dlt_standard_header_ok _ _ _ Eh) as (htyp & mcnt & overall & tail & F).
  destruct (std_facts_overall _ _ _ _ _ _ _ F) as [Ov _].
  pose proof (dlt_standard_header_wf _ _ _ Eh) as Wh.
  pose proof (sf_headers_le _ _ _ _ _ _ _ F) as Hle.
  pose proof (sf_overall_lt _ _ _ _ _ _ _ F) as Holt.
  pose proof (sf_payload _ _ _ _ _ _ _ F) as Hpl.
  pose proof (sf_overall_raw _ _ _ _ _ _ _ F) as Hraw.
  apply pbind_ok_inv in H as (ext & after_headers & Ee & H).
  assert (Hext : h_has_ext h = is_some ext /\ wf_opt wf_ext ext = true).
  { destruct (h_has_ext h).
    - apply pmap_ok_inv in Ee as (x & Ex & ->). split; [reflexivity|]. cbn [wf_opt].
      eapply dlt_extended_header_wf, Ex.
    - injection Ee as <- _. split; reflexivity. }
  destruct Hext as [Hhe Wx].
  unfold validated_payload_length in H. rewrite Ov, (sf_type_byte _ _ _ _ _ _ _ F) in H.
  destruct (N.ltb_spec overall (calculate_all_headers_length htyp)) as [|_]; [lia|].
  destruct (len after <? overall); [discriminate|].
  destruct (filtered_out ext f (h_ecu h)).
  - apply pbind_ok_inv in H as (x & am & Et & H). discriminate.
  - apply pbind_ok_inv in H as (p & r & Ep & H). injection H as <- _.
    cbn [m_storage m_header m_ext m_payload].
    split; [reflexivity|]. split; [exact Wh|]. split; [exact Hhe|]. split; [exact Wx|].
    split; [lia|]. intros Hlen.
    fold (verbose_of ext) (noar_of ext) in Ep.
    refine (dlt_payload_wf _ _ _ _ _ _ Wx Ep _ _); lia.
Qed.

(* ---------- the whole message ---------- *)
Lemma message_bytes_len m :
  wf_opt wf_storage (m_storage m) = true -> wf_std (m_header m) = true ->
  h_has_ext (m_header m) = is_some (m_ext m) -> wf_opt wf_ext (m_ext m) = true ->
  len (message_bytes m) + h_payload_length (m_header m) =
  (if has_storage m then 16 else 0) + overall_length_raw (m_header m)
  + len (payload_bytes (h_endian (m_header m)) (m_payload m)).
Proof.
  intros Ws Wh He Wx. unfold message_bytes, Run.has_storage. rewrite !len_app.
  pose proof (len_std_header_bytes' _ Wh) as L. rewrite He in L.
  assert (L1 : len (match m_storage m with Some s => storage_header_bytes s | None => [] end)
               = if match m_storage m with Some _ => true | None => false end then 16 else 0).
  { destruct (m_storage m) as [s|]; [|reflexivity]. apply len_storage_header_bytes, Ws. }
  assert (L2 : len (match m_ext m with Some x => ext_header_bytes x | None => [] end)
               = if is_some (m_ext m) then 10 else 0).
  { destruct (m_ext m) as [x|]; [|reflexivity]. apply len_ext_header_bytes', Wx. }
  rewrite L1, L2. lia.
Qed.

Theorem parsed_wf : forall bs f sh m rest,
  dlt_message bs f sh = POk (Item m) rest ->
  len (message_bytes m) = (if sh then 16 else 0) + overall_length (m_header m) ->
  wf_message m = true /\ has_storage m = sh.
Proof.
  intros bs f sh m rest H Hlen. unfold dlt_message in H.
  apply pbind_ok_inv in H as (shs & after & Es & H).
  assert (Hs : wf_opt wf_storage (option_map fst shs) = true /\ is_some (option_map fst shs) = sh).
  { destruct sh.
    - apply dlt_storage_header_wf in Es as [[-> ->]|(s & k & -> & Ws)].
      + exfalso. unfold dlt_message_after in H.
        assert (E : dlt_standard_header [] = PIncomplete (Some 1)) by reflexivity.
        rewrite E in H. discriminate.
      + split; [exact Ws | reflexivity].
    - injection Es as <- _. split; reflexivity. }
  destruct Hs as [Ws Hsh].
  apply dlt_message_after_wf in H as (Est & Wh & He & Wx & Hraw & Wk).
  rewrite <- Est in Ws, Hsh.
  assert (Hst : has_storage m = sh) by (rewrite <- Hsh; unfold Run.has_storage; now destruct (m_storage m)).
  pose proof (message_bytes_len m Ws Wh He Wx) as L. rewrite Hst in L.
  assert (Ov : overall_length (m_header m) = overall_length_raw (m_header m))
    by (unfold overall_length; apply N.mod_small; lia).
  assert (Hp : len (payload_bytes (h_endian (m_header m)) (m_payload m)) = h_payload_length (m_header m)) by lia.
  split; [|exact Hst].
  unfold wf_message, len_ok. rewrite Ws, Wh, Wx, (Wk Hp), He, Bool.eqb_reflx, Hp, N.eqb_refl.
  destruct (N.leb_spec (overall_length_raw (m_header m)) 65535); [reflexivity | lia].
Qed.

(* ---------- composition with the round trip (C01), taken as a section hypothesis ---------- *)
Section Compose.
  Hypothesis RT : forall m rest, wf_message m = true ->
    dlt_message (message_bytes m ++ rest) None (has_storage m) = POk (Item m) rest.

  Lemma c16_from_rt : forall bs f sh m rest,
    dlt_message bs f sh = POk (Item m) rest ->
    len (message_bytes m) = (if sh then 16 else 0) + overall_length (m_header m) ->
    dlt_message (message_bytes m) None sh = POk (Item m) [].
  Proof.
    intros bs f sh m rest H Hlen. destruct (parsed_wf _ _ _ _ _ H Hlen) as [W <-].
    rewrite <- (app_nil_r (message_bytes m)) at 1. apply RT, W.
  Qed.
End Compose.
