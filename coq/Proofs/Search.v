(* Proofs/Search.v — C06: the storage-header search finds the first occurrence of DLT\x01,
   and junk in front of a pattern does not move it (the pattern is unbordered). *)
From Coq Require Import Lia ZifyBool ZifyN ZifyNat.
From DltV.Model Require Import Bytes Nom Dlt Parse.
From DltV.Proofs Require Import BytesBasics.
Open Scope N_scope.

Definition pattern_at (bs : list byte) (k : nat) : Prop := exists r, skipn k bs = pat_DLT1 ++ r.

Lemma starts_with_iff p i : starts_with p i = true <-> exists r, i = p ++ r.
Proof.
  revert i; induction p as [|a p IH]; intros i.
  - split; [now exists i | reflexivity].
  - destruct i as [|b i]; cbn [starts_with].
    + split; [discriminate | intros (r & H); discriminate].
    + rewrite andb_true_iff, byte_eqb_eq, IH. split.
      * intros (-> & r & ->). now exists r.
      * intros (r & H). injection H as -> ->. split; [reflexivity | now exists r].
Qed.

Lemma pattern_at_0 bs : pattern_at bs 0 <-> starts_with pat_DLT1 bs = true.
Proof. unfold pattern_at. cbn [skipn]. symmetry. apply starts_with_iff. Qed.
Lemma pattern_at_S b bs k : pattern_at (b :: bs) (S k) <-> pattern_at bs k.
Proof. reflexivity. Qed.
Lemma pattern_at_nil k : ~ pattern_at [] k.
Proof. intros (r & H). rewrite skipn_nil in H. discriminate. Qed.

Lemma find_pattern_some bs k :
  find_pattern bs = Some k <-> pattern_at bs k /\ forall j, (j < k)%nat -> ~ pattern_at bs j.
Proof.
  revert k; induction bs as [|b bs IH]; intros k.
  - cbn. split; [discriminate|]. intros [H _]. now apply pattern_at_nil in H.
  - cbn [find_pattern]. destruct (starts_with pat_DLT1 (b :: bs)) eqn:E.
    + split.
      * intros H. injection H as <-. split; [now apply pattern_at_0 | lia].
      * intros [H1 H2]. destruct k as [|k]; [reflexivity|].
        exfalso. apply (H2 O); [lia | now apply pattern_at_0].
    + destruct k as [|k].
      * split.
        -- destruct (find_pattern bs); discriminate.
        -- intros [H _]. apply pattern_at_0 in H. congruence.
      * assert (M : option_map S (find_pattern bs) = Some (S k) <-> find_pattern bs = Some k).
        { destruct (find_pattern bs) as [k'|]; cbn [option_map]; split; intros H;
            try discriminate; injection H as H; now subst. }
        rewrite M, IH. split.
        -- intros [H1 H2]. split; [exact H1|].
           intros [|j] Hj; [rewrite pattern_at_0; congruence | apply H2; lia].
        -- intros [H1 H2]. split; [exact H1|]. intros j Hj. apply (H2 (S j)). lia.
Qed.

Lemma find_pattern_none bs : find_pattern bs = None <-> forall j, ~ pattern_at bs j.
Proof.
  split.
  - intros H j Hp.
    (* take the least occurrence *)
    assert (E : exists k, find_pattern bs = Some k).
    { clear H. revert bs Hp. induction j as [|j IH]; intros bs Hp.
      - destruct bs as [|b bs]; [now apply pattern_at_nil in Hp|].
        cbn [find_pattern]. apply pattern_at_0 in Hp. rewrite Hp. now exists O.
      - destruct bs as [|b bs]; [now apply pattern_at_nil in Hp|].
        cbn [find_pattern]. destruct (starts_with pat_DLT1 (b :: bs)); [now exists O|].
        destruct (IH bs Hp) as (k & ->). now exists (S k). }
    destruct E as (k & E). congruence.
  - intros H. destruct (find_pattern bs) as [k|] eqn:E; [|reflexivity].
    apply find_pattern_some in E as [E _]. now apply H in E.
Qed.

Lemma forward_spec bs :
  match forward_to_next_storage_header bs with
  | Some (k, r) => r = skipn (N.to_nat k) bs /\ pattern_at bs (N.to_nat k)
                   /\ forall j, (j < N.to_nat k)%nat -> ~ pattern_at bs j
  | None => forall j, ~ pattern_at bs j
  end.
Proof.
  unfold forward_to_next_storage_header. destruct (find_pattern bs) as [k|] eqn:E.
  - rewrite Nat2N.id. apply find_pattern_some in E as [E1 E2]. auto.
  - now apply find_pattern_none.
Qed.

(* ---------- junk in front of a pattern ---------- *)
Lemma starts_with_pat_4 a b c d r : starts_with pat_DLT1 (a :: b :: c :: d :: r) = starts_with pat_DLT1 [a; b; c; d].
Proof. unfold pat_DLT1. cbn [starts_with]. now rewrite !andb_true_r. Qed.

(* DLT\x01 is unbordered: it cannot start inside non-empty junk and end inside a following pattern
   unless it lies completely inside the junk *)
Lemma unbordered j x :
  j <> [] -> starts_with pat_DLT1 (j ++ pat_DLT1 ++ x) = true -> starts_with pat_DLT1 j = true.
Proof.
  intros Hne H.
  destruct j as [|a [|b [|c [|d j]]]]; [congruence| | | |].
  - exfalso. unfold pat_DLT1 in H. cbn [app starts_with] in H.
    change (byte_eqb x4c x44) with false in H. rewrite andb_false_r in H. discriminate.
  - exfalso. unfold pat_DLT1 in H. cbn [app starts_with] in H.
    change (byte_eqb x54 x44) with false in H. rewrite !andb_false_r in H. discriminate.
  - exfalso. unfold pat_DLT1 in H. cbn [app starts_with] in H.
    change (byte_eqb x01 x44) with false in H. rewrite !andb_false_r in H. discriminate.
  - cbn [app] in H. rewrite starts_with_pat_4 in H. now rewrite starts_with_pat_4.
Qed.

Lemma find_pattern_junk junk x :
  find_pattern junk = None -> find_pattern (junk ++ pat_DLT1 ++ x) = Some (length junk).
Proof.
  induction junk as [|a j IH]; intros H.
  - cbn [app length find_pattern].
    assert (E : starts_with pat_DLT1 (pat_DLT1 ++ x) = true) by (apply starts_with_iff; now exists x).
    destruct (pat_DLT1 ++ x) eqn:P; [discriminate|]. cbn [find_pattern]. now rewrite E.
  - cbn [find_pattern] in H. destruct (starts_with pat_DLT1 (a :: j)) eqn:E; [discriminate|].
    destruct (find_pattern j) eqn:F; [discriminate|].
    cbn [app length find_pattern].
    destruct (starts_with pat_DLT1 (a :: j ++ pat_DLT1 ++ x)) eqn:E2.
    + exfalso. apply (unbordered (a :: j) x) in E2; [congruence | discriminate].
    + now rewrite (IH eq_refl).
Qed.

Lemma forward_junk junk x :
  find_pattern junk = None ->
  forward_to_next_storage_header (junk ++ pat_DLT1 ++ x) = Some (len junk, pat_DLT1 ++ x).
Proof.
  intros H. unfold forward_to_next_storage_header. rewrite (find_pattern_junk junk x H).
  rewrite skipn_app, Nat.sub_diag, skipn_all. reflexivity.
Qed.
