(* Proofs/Utf8Lemmas.v — the greedy scan [valid_up_to] of Model/Utf8.v against an independent,
   declarative definition of well-formed UTF-8 (Unicode 15, table 3-7, one constructor per row).
   Main results: [utf8_prefix l] is a prefix of [l], is well-formed, and no well-formed prefix
   of [l] is longer; [valid_utf8 l = true <-> wf_utf8 l]. *)
From Coq Require Import Lia ZifyBool ZifyN ZifyNat.
From DltV.Model Require Import Bytes Utf8.
From DltV.Proofs Require Import BytesBasics.
Open Scope N_scope.

(* ---------- declarative well-formedness ---------- *)

Definition rng (lo hi : N) (b : byte) : Prop := lo <= b2n b /\ b2n b <= hi.

(* one well-formed scalar-value encoding: the nine rows of table 3-7 *)
Inductive wf_seq : list byte -> Prop :=
| ws_00_7F a       : rng 0 127 a -> wf_seq [a]
| ws_C2_DF a b     : rng 194 223 a -> rng 128 191 b -> wf_seq [a; b]
| ws_E0 a b c      : rng 224 224 a -> rng 160 191 b -> rng 128 191 c -> wf_seq [a; b; c]
| ws_E1_EC a b c   : rng 225 236 a -> rng 128 191 b -> rng 128 191 c -> wf_seq [a; b; c]
| ws_ED a b c      : rng 237 237 a -> rng 128 159 b -> rng 128 191 c -> wf_seq [a; b; c]
| ws_EE_EF a b c   : rng 238 239 a -> rng 128 191 b -> rng 128 191 c -> wf_seq [a; b; c]
| ws_F0 a b c d    : rng 240 240 a -> rng 144 191 b -> rng 128 191 c -> rng 128 191 d -> wf_seq [a; b; c; d]
| ws_F1_F3 a b c d : rng 241 243 a -> rng 128 191 b -> rng 128 191 c -> rng 128 191 d -> wf_seq [a; b; c; d]
| ws_F4 a b c d    : rng 244 244 a -> rng 128 143 b -> rng 128 191 c -> rng 128 191 d -> wf_seq [a; b; c; d].

Inductive wf_utf8 : list byte -> Prop :=
| wf_nil : wf_utf8 []
| wf_more s l : wf_seq s -> wf_utf8 l -> wf_utf8 (s ++ l).

(* ---------- one step of the scan ---------- *)

(* length of the well-formed sequence at the head of [l], if there is one *)
Definition utf8_step (l : list byte) : option nat :=
  match l with
  | [] => None
  | b0 :: r0 =>
    let n0 := b2n b0 in
    if n0 <? 128 then Some 1%nat
    else if lead2 n0 then
      match r0 with
      | b1 :: _ => if is_cont (b2n b1) then Some 2%nat else None
      | _ => None
      end
    else if lead3 n0 then
      match r0 with
      | b1 :: b2 :: _ => if second3 n0 (b2n b1) && is_cont (b2n b2) then Some 3%nat else None
      | _ => None
      end
    else if lead4 n0 then
      match r0 with
      | b1 :: b2 :: b3 :: _ =>
        if second4 n0 (b2n b1) && is_cont (b2n b2) && is_cont (b2n b3) then Some 4%nat else None
      | _ => None
      end
    else None
  end.

Lemma valid_up_to_step l :
  valid_up_to l =
  match utf8_step l with
  | Some k => (k + valid_up_to (skipn k l))%nat
  | None => O
  end.
Proof.
  destruct l as [|b0 r0]; [reflexivity|].
  cbn [valid_up_to utf8_step]. cbv zeta.
  destruct (b2n b0 <? 128) eqn:E0; [reflexivity|].
  destruct (lead2 (b2n b0)) eqn:E2.
  { destruct r0 as [|b1 r1]; [reflexivity|].
    destruct (is_cont (b2n b1)) eqn:C1; reflexivity. }
  destruct (lead3 (b2n b0)) eqn:E3.
  { destruct r0 as [|b1 [|b2 r2]]; [reflexivity|reflexivity|].
    destruct (second3 (b2n b0) (b2n b1) && is_cont (b2n b2)) eqn:C; reflexivity. }
  destruct (lead4 (b2n b0)) eqn:E4; [|reflexivity].
  destruct r0 as [|b1 [|b2 [|b3 r3]]]; [reflexivity|reflexivity|reflexivity|].
  destruct (second4 (b2n b0) (b2n b1) && is_cont (b2n b2) && is_cont (b2n b3)) eqn:C; reflexivity.
Qed.

Ltac utf8_unf :=
  unfold rng, lead2, lead3, lead4, second3, second4, is_cont, in_range in *.

(* destruct the condition of an [if] in the goal that does not itself contain an [if] *)
Ltac utf8_case_if :=
  match goal with
  | |- context [if ?c then _ else _] =>
    lazymatch c with
    | context [if _ then _ else _] => fail
    | _ => destruct c eqn:?
    end
  end.

(* a well-formed sequence at the head of a list is what the scan recognises, whatever follows *)
Lemma wf_seq_step s r : wf_seq s -> utf8_step (s ++ r) = Some (length s).
Proof.
  intros W. destruct W; cbn [app utf8_step length]; cbv zeta; utf8_unf;
    repeat (utf8_case_if; try lia); reflexivity.
Qed.

(* conversely, what the scan recognises is a well-formed sequence *)
Lemma utf8_step_some l k :
  utf8_step l = Some k -> exists s r, l = s ++ r /\ wf_seq s /\ length s = k.
Proof.
  destruct l as [|b0 r0]; [discriminate|].
  cbn [utf8_step]. cbv zeta. intros H.
  destruct (b2n b0 <? 128) eqn:E0.
  { injection H as <-. exists [b0], r0. split; [reflexivity|]. split; [|reflexivity].
    apply ws_00_7F. unfold rng. lia. }
  destruct (lead2 (b2n b0)) eqn:E2.
  { destruct r0 as [|b1 r1]; [discriminate|].
    destruct (is_cont (b2n b1)) eqn:C1; [|discriminate].
    injection H as <-. exists [b0; b1], r1. split; [reflexivity|]. split; [|reflexivity].
    apply ws_C2_DF; utf8_unf; lia. }
  destruct (lead3 (b2n b0)) eqn:E3.
  { destruct r0 as [|b1 [|b2 r2]]; [discriminate|discriminate|].
    destruct (second3 (b2n b0) (b2n b1) && is_cont (b2n b2)) eqn:C; [|discriminate].
    injection H as <-. exists [b0; b1; b2], r2. split; [reflexivity|]. split; [|reflexivity].
    utf8_unf.
    destruct (b2n b0 =? 224) eqn:Q1; [apply ws_E0; unfold rng; lia|].
    destruct (b2n b0 =? 237) eqn:Q2; [apply ws_ED; unfold rng; lia|].
    destruct (b2n b0 <? 237) eqn:Q3; [apply ws_E1_EC|apply ws_EE_EF]; unfold rng; lia. }
  destruct (lead4 (b2n b0)) eqn:E4; [|discriminate].
  destruct r0 as [|b1 [|b2 [|b3 r3]]]; [discriminate|discriminate|discriminate|].
  destruct (second4 (b2n b0) (b2n b1) && is_cont (b2n b2) && is_cont (b2n b3)) eqn:C; [|discriminate].
  injection H as <-. exists [b0; b1; b2; b3], r3. split; [reflexivity|]. split; [|reflexivity].
  utf8_unf.
  destruct (b2n b0 =? 240) eqn:Q1; [apply ws_F0; unfold rng; lia|].
  destruct (b2n b0 =? 244) eqn:Q2; [apply ws_F4; unfold rng; lia|].
  apply ws_F1_F3; unfold rng; lia.
Qed.

Lemma wf_seq_length s : wf_seq s -> (1 <= length s <= 4)%nat.
Proof. intros W. destruct W; cbn [length]; lia. Qed.

Lemma wf_seq_not_nil : ~ wf_seq [].
Proof. intros W. apply wf_seq_length in W. cbn [length] in W. lia. Qed.

Lemma skipn_length_app {A} (s r : list A) : skipn (length s) (s ++ r) = r.
Proof. rewrite skipn_app, Nat.sub_diag, skipn_all. reflexivity. Qed.

Lemma firstn_length_app {A} (s r : list A) : firstn (length s) (s ++ r) = s.
Proof. rewrite firstn_app, Nat.sub_diag, firstn_all. cbn [firstn]. apply app_nil_r. Qed.

(* the scan, one sequence at a time *)
Lemma valid_up_to_seq s r : wf_seq s -> valid_up_to (s ++ r) = (length s + valid_up_to r)%nat.
Proof.
  intros W. rewrite valid_up_to_step, (wf_seq_step s r W), skipn_length_app. reflexivity.
Qed.

Lemma valid_up_to_stuck l : utf8_step l = None -> valid_up_to l = O.
Proof. intros H. rewrite valid_up_to_step, H. reflexivity. Qed.

(* induction along the scan: either it is stuck, or it strips one well-formed sequence *)
Lemma utf8_scan_ind (P : list byte -> Prop) :
  (forall l, utf8_step l = None -> P l) ->
  (forall s r, wf_seq s -> P r -> P (s ++ r)) ->
  forall l, P l.
Proof.
  intros Hstuck Hseq l.
  remember (length l) as n eqn:Hn. revert l Hn.
  induction n as [n IH] using lt_wf_ind. intros l Hn.
  destruct (utf8_step l) as [k|] eqn:E; [|apply Hstuck; exact E].
  apply utf8_step_some in E. destruct E as (s & r & -> & W & _).
  apply Hseq; [exact W|].
  apply (IH (length r)); [|reflexivity].
  pose proof (wf_seq_length s W) as Hl. rewrite Hn, app_length. lia.
Qed.

(* ---------- the scan on a well-formed prefix ---------- *)

Lemma valid_up_to_wf_app p r : wf_utf8 p -> valid_up_to (p ++ r) = (length p + valid_up_to r)%nat.
Proof.
  intros W. induction W as [|s l Ws Wl IH]; [reflexivity|].
  rewrite <- app_assoc, (valid_up_to_seq _ _ Ws), IH, app_length. lia.
Qed.

Lemma valid_up_to_wf p : wf_utf8 p -> valid_up_to p = length p.
Proof.
  intros W. pose proof (valid_up_to_wf_app p [] W) as H.
  rewrite app_nil_r in H. cbn [valid_up_to] in H. lia.
Qed.

Lemma wf_utf8_app a b : wf_utf8 a -> wf_utf8 b -> wf_utf8 (a ++ b).
Proof.
  intros Wa Wb. induction Wa as [|s l Ws Wl IH]; [exact Wb|].
  rewrite <- app_assoc. apply wf_more; assumption.
Qed.

Lemma wf_utf8_seq s : wf_seq s -> wf_utf8 s.
Proof. intros W. rewrite <- (app_nil_r s). apply wf_more; [exact W|apply wf_nil]. Qed.

(* ---------- valid_up_to / utf8_prefix ---------- *)

Lemma valid_up_to_le l : (valid_up_to l <= length l)%nat.
Proof.
  induction l as [l Hs|s r W IH] using utf8_scan_ind.
  - rewrite (valid_up_to_stuck l Hs). lia.
  - rewrite (valid_up_to_seq s r W), app_length. lia.
Qed.

Lemma utf8_prefix_length l : length (utf8_prefix l) = valid_up_to l.
Proof.
  unfold utf8_prefix. rewrite firstn_length. pose proof (valid_up_to_le l). lia.
Qed.

Lemma utf8_prefix_is_prefix l : exists r, l = utf8_prefix l ++ r.
Proof.
  exists (skipn (valid_up_to l) l). unfold utf8_prefix. symmetry. apply firstn_skipn.
Qed.

Lemma utf8_prefix_stuck l : utf8_step l = None -> utf8_prefix l = [].
Proof. intros H. unfold utf8_prefix. rewrite (valid_up_to_stuck l H). reflexivity. Qed.

Lemma utf8_prefix_wf_app p r : wf_utf8 p -> utf8_prefix (p ++ r) = p ++ utf8_prefix r.
Proof.
  intros W. unfold utf8_prefix. rewrite (valid_up_to_wf_app p r W). apply firstn_app_2.
Qed.

Lemma utf8_prefix_seq s r : wf_seq s -> utf8_prefix (s ++ r) = s ++ utf8_prefix r.
Proof. intros W. apply utf8_prefix_wf_app, wf_utf8_seq, W. Qed.

Lemma utf8_prefix_wf l : wf_utf8 (utf8_prefix l).
Proof.
  induction l as [l Hs|s r W IH] using utf8_scan_ind.
  - rewrite (utf8_prefix_stuck l Hs). apply wf_nil.
  - rewrite (utf8_prefix_seq s r W). apply wf_more; assumption.
Qed.

Lemma utf8_prefix_maximal l p r :
  l = p ++ r -> wf_utf8 p -> (length p <= length (utf8_prefix l))%nat.
Proof.
  intros -> W. rewrite utf8_prefix_length, (valid_up_to_wf_app p r W). lia.
Qed.

(* the three facts that make [utf8_prefix l] "the longest valid-UTF-8 prefix of l" *)
Lemma utf8_prefix_spec l :
  (exists r, l = utf8_prefix l ++ r) /\
  wf_utf8 (utf8_prefix l) /\
  (forall p r, l = p ++ r -> wf_utf8 p -> (length p <= length (utf8_prefix l))%nat).
Proof.
  split; [apply utf8_prefix_is_prefix|]. split; [apply utf8_prefix_wf|].
  intros p r. apply utf8_prefix_maximal.
Qed.

(* a well-formed prefix of [l] is even a prefix of [utf8_prefix l] *)
Lemma utf8_prefix_greatest l p r :
  l = p ++ r -> wf_utf8 p -> exists q, utf8_prefix l = p ++ q.
Proof.
  intros -> W. exists (utf8_prefix r). apply utf8_prefix_wf_app, W.
Qed.

(* ---------- valid_utf8 ---------- *)

Lemma valid_utf8_iff l : valid_utf8 l = true <-> wf_utf8 l.
Proof.
  unfold valid_utf8. rewrite Nat.eqb_eq. split.
  - intros H. pose proof (utf8_prefix_wf l) as W.
    unfold utf8_prefix in W. rewrite H, firstn_all in W. exact W.
  - apply valid_up_to_wf.
Qed.

Lemma utf8_prefix_valid l : valid_utf8 l = true -> utf8_prefix l = l.
Proof.
  unfold valid_utf8, utf8_prefix. rewrite Nat.eqb_eq. intros ->. apply firstn_all.
Qed.

Lemma valid_utf8_prefix l : valid_utf8 (utf8_prefix l) = true.
Proof. apply valid_utf8_iff, utf8_prefix_wf. Qed.

Lemma utf8_prefix_idem l : utf8_prefix (utf8_prefix l) = utf8_prefix l.
Proof. apply utf8_prefix_valid, valid_utf8_prefix. Qed.

Lemma utf8_prefix_fix_iff l : utf8_prefix l = l <-> valid_utf8 l = true.
Proof.
  split; [|apply utf8_prefix_valid].
  intros H. rewrite <- H. apply valid_utf8_prefix.
Qed.

Lemma valid_utf8_nil : valid_utf8 [] = true.
Proof. reflexivity. Qed.

Lemma utf8_prefix_nil : utf8_prefix [] = [].
Proof. reflexivity. Qed.

Lemma valid_utf8_app a b : valid_utf8 a = true -> valid_utf8 b = true -> valid_utf8 (a ++ b) = true.
Proof. rewrite !valid_utf8_iff. apply wf_utf8_app. Qed.

(* after a valid prefix, validity of the whole is validity of the remainder *)
Lemma valid_utf8_app_iff a b :
  valid_utf8 a = true -> (valid_utf8 (a ++ b) = true <-> valid_utf8 b = true).
Proof.
  intros Ha. apply valid_utf8_iff in Ha. unfold valid_utf8.
  rewrite (valid_up_to_wf_app a b Ha), app_length, !Nat.eqb_eq. lia.
Qed.

Lemma valid_utf8_app_inv_r a b :
  valid_utf8 a = true -> valid_utf8 (a ++ b) = true -> valid_utf8 b = true.
Proof. intros Ha H. apply (valid_utf8_app_iff a b Ha). exact H. Qed.

Lemma utf8_prefix_app_valid a b :
  valid_utf8 a = true -> utf8_prefix (a ++ b) = a ++ utf8_prefix b.
Proof. intros Ha. apply utf8_prefix_wf_app, valid_utf8_iff, Ha. Qed.

(* ASCII *)
Lemma wf_utf8_ascii l : Forall (fun b => b2n b < 128) l -> wf_utf8 l.
Proof.
  intros H. induction H as [|b l Hb Hl IH]; [apply wf_nil|].
  change (b :: l) with ([b] ++ l). apply wf_more; [|exact IH].
  apply ws_00_7F. unfold rng. lia.
Qed.

Lemma valid_utf8_ascii l : Forall (fun b => b2n b < 128) l -> valid_utf8 l = true.
Proof. intros H. apply valid_utf8_iff, wf_utf8_ascii, H. Qed.

Lemma valid_utf8_cons_ascii b l :
  b2n b < 128 -> (valid_utf8 (b :: l) = true <-> valid_utf8 l = true).
Proof.
  intros Hb. change (b :: l) with ([b] ++ l). apply valid_utf8_app_iff.
  apply valid_utf8_ascii. constructor; [exact Hb|constructor].
Qed.

(* ---------- no_nul ---------- *)

Lemma no_nul_app a b : no_nul (a ++ b) = no_nul a && no_nul b.
Proof. unfold no_nul. apply forallb_app. Qed.

Lemma no_nul_cons b l : no_nul (b :: l) = negb (is_nul b) && no_nul l.
Proof. reflexivity. Qed.

Lemma no_nul_firstn k l : no_nul l = true -> no_nul (firstn k l) = true.
Proof.
  intros H. rewrite <- (firstn_skipn k l), no_nul_app in H.
  apply andb_true_iff in H. apply H.
Qed.

Lemma no_nul_skipn k l : no_nul l = true -> no_nul (skipn k l) = true.
Proof.
  intros H. rewrite <- (firstn_skipn k l), no_nul_app in H.
  apply andb_true_iff in H. apply H.
Qed.

Lemma utf8_prefix_no_nul l : no_nul l = true -> no_nul (utf8_prefix l) = true.
Proof. apply no_nul_firstn. Qed.

Lemma utf8_prefix_len_le l : len (utf8_prefix l) <= len l.
Proof. unfold utf8_prefix. apply len_firstn_le_len. Qed.
