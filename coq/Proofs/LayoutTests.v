(* Proofs/LayoutTests.v — C02: the executable reference codec of Spec/Layout.v run against the
   model on concrete inputs (kernel-evaluated).  Every payload kind, both byte orders, every
   truncation, single-byte mutations at every position, bad lengths, junk before the storage
   marker, NUL-padded ids, invalid UTF-8, size-0 strings, type-info dialect. *)
From DltV.Model Require Import Bytes Utf8 Nom Dlt Parse.
From DltV.Spec Require Import WellFormed Layout.
From DltV.Proofs Require Import LayoutVerdict.
Open Scope N_scope.

Definition model_verdict (sh : bool) (bs : list byte) : verdict := verdict_of (dlt_message bs None sh) bs.
(* the two decoders agree on every input of the list *)
Definition agree_on (sh : bool) (l : list (list byte)) : Prop :=
  map (model_verdict sh) l = map (spec_decode sh) l.
(* 0 message, 1 incomplete, 2 reject *)
Definition class (v : verdict) : N := match v with VMessage _ _ => 0 | VIncomplete => 1 | VReject => 2 end.
Definition consumed_of (v : verdict) : N := match v with VMessage _ c => c | _ => 0 end.

Definition truncations (bs : list byte) : list (list byte) := map (fun k => firstn k bs) (seq 0 (S (length bs))).
Definition set_nth (bs : list byte) (i : nat) (b : byte) : list byte := firstn i bs ++ b :: skipn (S i) bs.
(* at every position: 0x00, 0xff, +1, and the byte with bit 4 flipped *)
Definition mutations (bs : list byte) : list (list byte) :=
  flat_map (fun i =>
    let b := nth i bs x00 in
    [set_nth bs i x00; set_nth bs i xff; set_nth bs i (n2b (b2n b + 1)); set_nth bs i (n2b (N.lxor (b2n b) 16))])
    (seq 0 (length bs)).
Definition deletions (bs : list byte) : list (list byte) :=
  map (fun i => firstn i bs ++ skipn (S i) bs) (seq 0 (length bs)).

(* ---------- sample values ---------- *)
Definition A := x41. Definition B := x42.
Definition ti (k : ti_kind) (v : bool) : type_info := mkTI k SAscii v false.
Definition nm : option (list byte) := Some [x6e; x61].           (* "na" *)
Definition un : option (list byte) := Some [x6d; xc3; xa9].       (* "mé" *)

Definition args_plain : list argument :=
  [ mkArg (ti KBool false) None None None (VBool 1);
    mkArg (ti (KUnsigned BL8) false) None None None (VU8 200);
    mkArg (ti (KUnsigned BL16) false) None None None (VU16 513);
    mkArg (ti (KUnsigned BL32) false) None None None (VU32 305419896);
    mkArg (ti (KUnsigned BL64) false) None None None (VU64 1311768467463790320);
    mkArg (ti (KUnsigned BL128) false) None None None (VU128 (2 ^ 127 + 5));
    mkArg (ti (KSigned BL8) false) None None None (VI8 (-3));
    mkArg (ti (KSigned BL16) false) None None None (VI16 (-300));
    mkArg (ti (KSigned BL32) false) None None None (VI32 (-70000));
    mkArg (ti (KSigned BL64) false) None None None (VI64 (-5000000000));
    mkArg (ti (KSigned BL128) false) None None None (VI128 (- 2 ^ 100));
    mkArg (ti (KFloat W32) false) None None None (VF32 1078530011);
    mkArg (ti (KFloat W64) false) None None None (VF64 4614256656552045848);
    mkArg (mkTI KString SUtf8 false true) None None None (VString [x68; xc3; xa9]);
    mkArg (ti KRaw false) None None None (VRaw [x00; xff; x10]) ].
Definition args_named : list argument :=
  [ mkArg (ti KBool true) nm None None (VBool 0);
    mkArg (ti (KUnsigned BL16) true) nm un None (VU16 65535);
    mkArg (ti (KSigned BL32) true) nm (Some []) None (VI32 (-1));
    mkArg (ti (KFloat W32) true) (Some []) un None (VF32 0);
    mkArg (ti (KSignedFixed W32) true) nm un (Some (mkFP 1065353216 (FI32 (-7)))) (VI32 100);
    mkArg (ti (KSignedFixed W64) false) None None (Some (mkFP 1 (FI64 (-(2 ^ 40))))) (VI64 (-9));
    mkArg (ti (KUnsignedFixed W32) false) None None (Some (mkFP 2 (FI32 7))) (VU32 9);
    mkArg (ti (KUnsignedFixed W64) true) nm un (Some (mkFP 3 (FI64 8))) (VU64 (2 ^ 63));
    mkArg (mkTI KString (SReserved 5) true false) nm None None (VString []);
    mkArg (ti KRaw true) nm None None (VRaw []) ].

Definition mk (e : endian) (ecu : option (list byte)) (ses tms : option N) (p : payload)
    (x : option ext_config) (sh : option storage_header) : message :=
  message_new (mkCfg 1 7 e ecu ses tms p x) sh.
Definition xlog := Some (mkExtCfg (MLog Info) [A; B] [B; A; A; B]).
Definition xnw := Some (mkExtCfg (MNwTrace NCan) [A] []).
Definition xctl := Some (mkExtCfg (MControl CResponse) [A; B; A; B] [B]).
Definition xunk := Some (mkExtCfg (MUnknown 5 9) [A] [B]).
Definition st0 := Some (mkSH (mkTS 1700000000 999999) [x45; x43; x55]).

Definition m_plain_le := mk LE None None None (PVerbose args_plain) xlog None.
Definition m_plain_be := mk BE (Some [A; B; A]) (Some 66051) (Some 4294967295) (PVerbose args_plain) xlog None.
Definition m_named_le := mk LE (Some [A]) None (Some 5) (PVerbose args_named) xlog st0.
Definition m_named_be := mk BE None (Some 9) None (PVerbose args_named) xlog st0.
Definition m_nv_noext := mk LE None None None (PNonVerbose 3735928559 [x01; x02; x03]) None None.
Definition m_nv_ext_be := mk BE (Some [A; B; A; B]) None None (PNonVerbose 258 []) xunk st0.
Definition m_ctl := mk LE None (Some 1) None (PControl CResponse [x13; x00]) xctl None.
Definition m_ctl_unk := mk BE None None None (PControl (CUnknown 19) []) xctl st0.
Definition m_nw_le := mk LE None None None (PNetworkTrace [[x01; x02]; []; [xff]]) xnw None.
Definition m_nw_be := mk BE (Some []) (Some 0) (Some 0) (PNetworkTrace [[x01; x02]; [xaa; xbb; xcc]]) xnw st0.
Definition m_empty_verbose := mk LE None None None (PVerbose []) xlog None.

Definition samples : list message :=
  [m_plain_le; m_plain_be; m_named_le; m_named_be; m_nv_noext; m_nv_ext_be; m_ctl; m_ctl_unk;
   m_nw_le; m_nw_be; m_empty_verbose].

(* ---------- encoder ---------- *)
Example samples_wf : forallb wf_message samples = true.
Proof. vm_compute. reflexivity. Qed.
Example enc_samples : map message_bytes samples = map spec_encode samples.
Proof. vm_compute. reflexivity. Qed.

(* ---------- decoder on canonical encodings ---------- *)
Definition has_sh (m : message) : bool := present (m_storage m).
Example dec_samples_own_mode :
  map (fun m => spec_decode (has_sh m) (spec_encode m)) samples
  = map (fun m => VMessage m (len (spec_encode m))) samples.
Proof. vm_compute. reflexivity. Qed.
Example dec_samples_model_own_mode :
  map (fun m => model_verdict (has_sh m) (message_bytes m)) samples
  = map (fun m => VMessage m (len (message_bytes m))) samples.
Proof. vm_compute. reflexivity. Qed.
Example dec_samples_sh : agree_on true (map message_bytes samples).
Proof. vm_compute. reflexivity. Qed.
Example dec_samples_nosh : agree_on false (map message_bytes samples).
Proof. vm_compute. reflexivity. Qed.
(* followed by another message / by garbage: consumed stops at the declared end *)
Example dec_followed :
  let bs := message_bytes m_named_le ++ message_bytes m_ctl_unk ++ [xde; xad] in
  model_verdict true bs = spec_decode true bs /\
  spec_decode true bs = VMessage m_named_le (len (message_bytes m_named_le)).
Proof. vm_compute. split; reflexivity. Qed.

(* ---------- truncations: every cut position ---------- *)
Example trunc_plain_le : agree_on false (truncations (message_bytes m_plain_le)).
Proof. vm_compute. reflexivity. Qed.
Example trunc_plain_be : agree_on false (truncations (message_bytes m_plain_be)).
Proof. vm_compute. reflexivity. Qed.
Example trunc_named_le_sh : agree_on true (truncations (message_bytes m_named_le)).
Proof. vm_compute. reflexivity. Qed.
Example trunc_named_be_sh : agree_on true (truncations (message_bytes m_named_be)).
Proof. vm_compute. reflexivity. Qed.
Example trunc_nv : agree_on false (truncations (message_bytes m_nv_noext)).
Proof. vm_compute. reflexivity. Qed.
Example trunc_nv_ext_sh : agree_on true (truncations (message_bytes m_nv_ext_be)).
Proof. vm_compute. reflexivity. Qed.
Example trunc_ctl : agree_on false (truncations (message_bytes m_ctl)).
Proof. vm_compute. reflexivity. Qed.
Example trunc_nw_sh : agree_on true (truncations (message_bytes m_nw_be)).
Proof. vm_compute. reflexivity. Qed.
(* the classes seen along the truncations of one message: incomplete ... incomplete, message *)
Example trunc_classes :
  map (fun bs => class (spec_decode false bs)) (truncations (message_bytes m_ctl))
  = repeat 1 (length (message_bytes m_ctl)) ++ [0].
Proof. vm_compute. reflexivity. Qed.

(* ---------- mutations: 4 replacement bytes at every position, byte deletions ---------- *)
Example mut_plain_le : agree_on false (mutations (message_bytes m_plain_le)).
Proof. vm_compute. reflexivity. Qed.
Example mut_plain_be : agree_on false (mutations (message_bytes m_plain_be)).
Proof. vm_compute. reflexivity. Qed.
Example mut_named_le_sh : agree_on true (mutations (message_bytes m_named_le)).
Proof. vm_compute. reflexivity. Qed.
Example mut_named_be_sh : agree_on true (mutations (message_bytes m_named_be)).
Proof. vm_compute. reflexivity. Qed.
Example mut_named_be_nosh : agree_on false (mutations (skipn 16 (message_bytes m_named_be))).
Proof. vm_compute. reflexivity. Qed.
Example mut_nv : agree_on false (mutations (message_bytes m_nv_noext)).
Proof. vm_compute. reflexivity. Qed.
Example mut_nv_ext_sh : agree_on true (mutations (message_bytes m_nv_ext_be)).
Proof. vm_compute. reflexivity. Qed.
Example mut_ctl : agree_on false (mutations (message_bytes m_ctl)).
Proof. vm_compute. reflexivity. Qed.
Example mut_ctl_unk_sh : agree_on true (mutations (message_bytes m_ctl_unk)).
Proof. vm_compute. reflexivity. Qed.
Example mut_nw_le : agree_on false (mutations (message_bytes m_nw_le)).
Proof. vm_compute. reflexivity. Qed.
Example mut_nw_be_sh : agree_on true (mutations (message_bytes m_nw_be)).
Proof. vm_compute. reflexivity. Qed.
Example del_named_le_sh : agree_on true (deletions (message_bytes m_named_le)).
Proof. vm_compute. reflexivity. Qed.
Example del_plain_be : agree_on false (deletions (message_bytes m_plain_be)).
Proof. vm_compute. reflexivity. Qed.
(* the mutations are not all of one class *)
Example mut_classes_mixed :
  let cs := map (fun bs => class (spec_decode true bs)) (mutations (message_bytes m_named_le)) in
  (existsb (N.eqb 0) cs && existsb (N.eqb 1) cs && existsb (N.eqb 2) cs) = true.
Proof. vm_compute. reflexivity. Qed.

(* ---------- storage header: junk, partial markers, short buffers ---------- *)
Definition D := x44. Definition L := x4c. Definition T := x54.
Definition body := skipn 16 (message_bytes m_ctl_unk).
Definition shdr := firstn 16 (message_bytes m_ctl_unk).
Example sh_junk :
  agree_on true
    [ [xaa; xbb; xcc] ++ shdr ++ body;
      [D; L; T; x00] ++ shdr ++ body;                (* almost a marker *)
      [D; L; D; L; T] ++ skipn 3 shdr ++ body;       (* marker overlapping junk "DLDLT\x01" *)
      [D; L; T] ++ shdr ++ body;
      repeat x00 20; repeat D 15; repeat D 16;        (* no marker at all *)
      [D; L; T; x01];                                  (* marker but < 16 bytes in the buffer *)
      repeat xaa 13 ++ [D; L; T; x01];                 (* >= 16 bytes, marker at the very end *)
      repeat xaa 5 ++ firstn 15 shdr;                  (* storage header one byte short *)
      repeat xaa 5 ++ shdr;                            (* storage header, nothing behind *)
      repeat xaa 5 ++ shdr ++ firstn 3 body;
      shdr ++ shdr ++ body;                            (* a storage header where the message should be *)
      body ].                                          (* no storage header at all *)
Proof. vm_compute. reflexivity. Qed.
Example sh_junk_consumed :
  spec_decode true ([xaa; xbb; xcc] ++ shdr ++ body ++ [x99])
  = VMessage m_ctl_unk (3 + len (message_bytes m_ctl_unk)).
Proof. vm_compute. reflexivity. Qed.
Example sh_no_marker_incomplete :
  map (fun bs => class (spec_decode true bs)) [repeat x00 20; [D; L; T; x01]; repeat xaa 13 ++ [D; L; T; x01]]
  = [1; 1; 1].
Proof. vm_compute. reflexivity. Qed.
(* storage ECU id: NUL-padded, NUL in the middle, invalid UTF-8, and the seconds/microseconds byte order *)
Example sh_ids :
  agree_on true
    [ [D; L; T; x01; x01; x02; x03; x04; x05; x06; x07; x08; A; x00; B; x00] ++ body;
      [D; L; T; x01; x01; x02; x03; x04; x05; x06; x07; x08; x00; x00; x00; x00] ++ body;
      [D; L; T; x01; x01; x02; x03; x04; x05; x06; x07; x08; A; xff; B; A] ++ body;
      [D; L; T; x01; x01; x02; x03; x04; x05; x06; x07; x08; xc3; xa9; xc3; x00] ++ body ].
Proof. vm_compute. reflexivity. Qed.
Example sh_fields :
  match spec_decode true ([D; L; T; x01; x01; x02; x03; x04; x05; x06; x07; x08; A; xff; B; A] ++ body) with
  | VMessage m _ => m_storage m = Some (mkSH (mkTS 67305985 134678021) [A])
  | _ => False
  end.
Proof. vm_compute. reflexivity. Qed.

(* ---------- standard / extended header: every HTYP byte, every MSIN byte, lengths ---------- *)
Definition with_htyp (h : N) : list byte :=
  n2b h :: [x07; x00; x20] ++ [A; x00; x00; x00; x00; x00; x00; x02; x00; x00; x00; x03]
  ++ [x41; x02; A; B; x00; x00; B; xff; x00; x00] ++ [x10; x00; x00; x00; x01; x10; x00; x00; x00; x00; xee].
Example all_htyp : agree_on false (map with_htyp (map N.of_nat (seq 0 256))).
Proof. vm_compute. reflexivity. Qed.
Definition with_msin (v : N) : list byte :=
  [x21; x00; x00; x17; n2b v; x01; A; x00; x00; x00; B; x00; x00; x00;
   x10; x00; x00; x00; x01; x02; x03; x04; x05].
Example all_msin : agree_on false (map with_msin (map N.of_nat (seq 0 256))).
Proof. vm_compute. reflexivity. Qed.
Example all_msin_be : agree_on false (map (fun v => set_nth (with_msin v) 0 x23) (map N.of_nat (seq 0 256))).
Proof. vm_compute. reflexivity. Qed.
(* LEN from 0 to 40 on a 30-byte buffer with all optional fields and extended header (26 header bytes) *)
Definition with_len (v : N) : list byte :=
  [x3d; x00; x00; n2b v] ++ [A; x00; x00; x00; x00; x00; x00; x02; x00; x00; x00; x03]
  ++ [x40; x00; A; B; x00; x00; B; xff; x00; x00] ++ [x01; x02; x03; x04].
Example all_len : agree_on false (map with_len (map N.of_nat (seq 0 41))).
Proof. vm_compute. reflexivity. Qed.
Example all_len_classes :
  map (fun v => class (spec_decode false (with_len v))) [0; 25; 26; 29; 30; 31]
  = [2; 2; 2; 2; 0; 1].
Proof. vm_compute. reflexivity. Qed.
(* LEN too small is a rejection only once the standard header is complete (rules M2, M3) *)
Example short_vs_bad_len :
  agree_on false (truncations (with_len 3)) /\
  map (fun bs => class (spec_decode false bs)) (truncations (with_len 3))
  = repeat 1 16 ++ repeat 2 15.
Proof. vm_compute. split; reflexivity. Qed.
(* control payload of 0 bytes, non-verbose payload of 0..4 bytes *)
Example small_payloads :
  agree_on false
    [ [x21; x00; x00; x0e; x26; x00; A; x00; x00; x00; B; x00; x00; x00];
      [x21; x00; x00; x0f; x26; x00; A; x00; x00; x00; B; x00; x00; x00; x05];
      [x20; x00; x00; x04]; [x20; x00; x00; x07; x01; x02; x03]; [x20; x00; x00; x08; x01; x02; x03; x04];
      [x22; x00; x00; x08; x01; x02; x03; x04];
      [x21; x00; x00; x0e; x20; x00; A; x00; x00; x00; B; x00; x00; x00];
      [x21; x00; x00; x11; x20; x00; A; x00; x00; x00; B; x00; x00; x00; x01; x02; x03] ].
Proof. vm_compute. reflexivity. Qed.

(* ---------- arguments: counts, lengths, dialect ---------- *)
(* [pl]: payload of a verbose LE log message with NOAR = n *)
Definition vmsg (e : endian) (n : N) (pl : list byte) : list byte :=
  [match e with LE => x21 | BE => x23 end; x00] ++ put_uint BE 2 (14 + len pl)
  ++ [x41; n2b n; A; x00; x00; x00; B; x00; x00; x00] ++ pl.
Definition bool_arg := [x10; x00; x00; x00; x01].
Example noar_vs_args :
  agree_on false
    [ vmsg LE 0 (bool_arg ++ bool_arg); vmsg LE 1 (bool_arg ++ bool_arg); vmsg LE 2 (bool_arg ++ bool_arg);
      vmsg LE 3 (bool_arg ++ bool_arg); vmsg LE 255 (bool_arg ++ bool_arg);
      vmsg LE 1 [x10; x00; x00; x00]; vmsg LE 1 [x10; x00; x00]; vmsg LE 1 [];
      vmsg LE 2 (bool_arg ++ [x10]) ].
Proof. vm_compute. reflexivity. Qed.
(* an argument that would fit in the buffer but not in the declared payload is rejected *)
Example arg_crosses_declared_end :
  let bs := vmsg LE 1 [x10; x00; x00; x00] ++ [x01; x02] in
  model_verdict false bs = spec_decode false bs /\ spec_decode false bs = VReject.
Proof. vm_compute. split; reflexivity. Qed.
(* strings: size 0, size 1, no terminator, interior NUL, invalid UTF-8, size larger than the payload *)
Example string_dialect :
  agree_on false
    [ vmsg LE 1 [x00; x02; x00; x00; x00; x00];
      vmsg LE 1 [x00; x02; x00; x00; x01; x00; x00];
      vmsg LE 1 [x00; x02; x00; x00; x03; x00; A; B; A];
      vmsg LE 1 [x00; x02; x00; x00; x04; x00; A; x00; B; x00];
      vmsg LE 1 [x00; x02; x00; x00; x04; x00; A; xff; B; x00];
      vmsg LE 1 [x00; x02; x00; x00; x04; x00; xe2; x82; xac; x00];
      vmsg LE 1 [x00; x02; x00; x00; x04; x00; xe2; x82; x00; x00];
      vmsg LE 1 [x00; x02; x00; x00; x09; x00; A; B; x00];
      vmsg BE 1 [x00; x00; x02; x00; x00; x03; A; B; x00];
      vmsg BE 1 [x00; x00; x02; x00; x03; x00; A; B; x00];
      (* with a name of size 0 / size 2 / a name longer than the payload *)
      vmsg LE 1 [x00; x0a; x00; x00; x02; x00; x00; x00; A; x00];
      vmsg LE 1 [x00; x0a; x00; x00; x02; x00; x02; x00; B; x00; A; x00];
      vmsg LE 1 [x00; x0a; x00; x00; x02; x00; xff; xff; B; x00; A; x00] ].
Proof. vm_compute. reflexivity. Qed.
(* type info: bool with TYLE 0..15, unused bits, ARAY, two type bits, bad widths, all SCOD, FIXP on float *)
Definition ti_msg (w : N) : list byte := vmsg LE 1 (put_uint LE 4 w ++ repeat x01 24).
Example ti_dialect :
  agree_on false
    (map ti_msg
       ([16; 17; 18; 31; 16 + 16384; 16 + 2 ^ 18; 16 + 2 ^ 31; 16 + 256; 16 + 32; 0; 15; 4096;
         32; 33; 34; 35; 36; 37; 38; 32 + 4096 + 2; 32 + 4096 + 3; 32 + 4096 + 4; 32 + 4096 + 5;
         64; 65; 69; 70; 64 + 4096 + 3; 64 + 4096 + 4; 64 + 4096 + 1;
         128; 130; 131; 132; 133; 131 + 4096; 512; 512 + 7; 512 + 4096; 1024; 1024 + 9; 1024 + 512;
         16 + 2048; 35 + 2048; 131 + 2048; 512 + 2048; 1024 + 2048; 16 + 8192]
        ++ map (fun s => 512 + 32768 * s) [0; 1; 2; 3; 4; 5; 6; 7])).
Proof. vm_compute. reflexivity. Qed.
Example ti_dialect_classes :
  map (fun w => class (spec_decode false (ti_msg w))) [16; 17; 16 + 16384; 16 + 2 ^ 31; 16 + 256; 48; 32; 35; 131 + 4096]
  = [0; 0; 0; 0; 2; 2; 2; 0; 0].
Proof. vm_compute. reflexivity. Qed.
(* every type-info word below 2^11 (all kind/width combinations) and with VARI/FIXP/TRAI/STRU on top *)
Example ti_sweep_small :
  agree_on false (map ti_msg (map N.of_nat (seq 0 2048))) /\
  agree_on false (map (fun w => ti_msg (w * 16 + 3)) (map N.of_nat (seq 0 2048))).
Proof. vm_compute. split; reflexivity. Qed.
(* ids in the extended header: padded, NUL first, invalid UTF-8 *)
Example ext_ids :
  agree_on false
    [ [x21; x00; x00; x0e; x20; x00; A; B; x00; x00; x00; A; B; A];
      [x21; x00; x00; x0e; x20; x00; xc3; xa9; xc3; xa9; xc3; xa9; xc3; x28];
      [x21; x00; x00; x0e; x20; x00; xff; A; A; A; A; x00; A; A] ].
Proof. vm_compute. reflexivity. Qed.
