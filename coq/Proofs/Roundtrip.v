(* Proofs/Roundtrip.v — C01: Message::as_bytes followed by dlt_message returns the message and exactly
   the bytes that followed it. *)
From Coq Require Import Lia ZifyBool ZifyN ZifyNat.
From DltV.Model Require Import Bytes RustInt Utf8 Nom Dlt Parse.
From DltV.Spec Require Import WellFormed.
From DltV.Proofs Require Import BytesBasics Fields Utf8Lemmas ZString ParseLemmas Search Stable Headers ArgsRoundtrip.
Open Scope N_scope.

Definition has_storage (m : message) : bool :=
  match m_storage m with Some _ => true | None => false end.

(* ---------- network trace: the slices are raw arguments without name ---------- *)
Definition raw_ti : type_info := mkTI KRaw SAscii false false.
Definition raw_arg (s : list byte) : argument := mkArg raw_ti None None None (VRaw s).

Lemma nw_payload_bytes_eq e sl :
  payload_bytes e (PNetworkTrace sl) = flat_map (arg_bytes e) (map raw_arg sl).
Proof.
  cbn [payload_bytes]. induction sl as [|s sl IH]; [reflexivity|].
  cbn [flat_map map]. rewrite IH. reflexivity.
Qed.
Lemma raw_slices_raw_args sl : raw_slices (map raw_arg sl) = sl.
Proof.
  unfold raw_slices. induction sl as [|s sl IH]; [reflexivity|].
  cbn [flat_map map raw_arg a_value app]. now rewrite IH.
Qed.
Lemma wf_raw_args sl :
  forallb (fun s => len s <=? 65535) sl = true -> forallb wf_arg (map raw_arg sl) = true.
Proof.
  induction sl as [|s sl IH]; [reflexivity|]. cbn [forallb map]. intros H.
  apply andb_true_iff in H as [H1 H2]. rewrite (IH H2), andb_true_r. exact H1.
Qed.

(* ---------- payload ---------- *)
Definition x_verbose (x : option ext_header) : bool := match x with Some x => e_verbose x | None => false end.
Definition x_noar (x : option ext_header) : N := match x with Some x => e_noar x | None => 0 end.

Lemma verbose_payload_roundtrip e args rest noar mt :
  forallb wf_arg args = true -> noar = len args ->
  dlt_payload e (flat_map (arg_bytes e) args ++ rest) true (len (flat_map (arg_bytes e) args)) noar mt =
  match mt with
  | Some (MNwTrace _) => POk (PNetworkTrace (raw_slices args)) rest
  | _ => POk (PVerbose args) rest
  end.
Proof.
  intros Hwf ->. unfold dlt_payload. rewrite take_app by reflexivity. cbn [pbind].
  rewrite len_to_nat.
  pose proof (arguments_roundtrip e args [] Hwf) as C. rewrite app_nil_r in C. rewrite C.
  reflexivity.
Qed.

Theorem payload_roundtrip e x p rest :
  wf_kind x p = true ->
  dlt_payload e (payload_bytes e p ++ rest) (x_verbose x) (len (payload_bytes e p)) (x_noar x)
    (option_map e_mtype x) = POk p rest.
Proof.
  intros H. destruct p as [args|id bs|ct bs|sl].
  - (* verbose *)
    destruct x as [x|]; [|discriminate H]. cbn [wf_kind] in H.
    apply andb_true_iff in H as [H Hargs]. apply andb_true_iff in H as [H Hnw].
    apply andb_true_iff in H as [H _]. apply andb_true_iff in H as [Hv Hn]. apply N.eqb_eq in Hn.
    cbn [x_verbose x_noar option_map payload_bytes]. rewrite Hv.
    rewrite (verbose_payload_roundtrip e args rest _ _ Hargs Hn).
    destruct (e_mtype x); try reflexivity. discriminate Hnw.
  - (* non-verbose *)
    assert (Hid : id < 256 ^ N.of_nat 4 /\ x_verbose x = false /\
                  match option_map e_mtype x with Some (MControl _) => False | _ => True end).
    { destruct x as [x|]; cbn [wf_kind] in H.
      - apply andb_true_iff in H as [H Hid]. apply andb_true_iff in H as [Hv Hc].
        apply N.ltb_lt in Hid. split; [eapply lt_256_pow; [exact Hid | cbn; lia]|].
        cbn [x_verbose option_map]. split; [now destruct (e_verbose x)|].
        destruct (e_mtype x); trivial. discriminate Hc.
      - apply N.ltb_lt in H. split; [eapply lt_256_pow; [exact H | cbn; lia]|]. cbn. auto. }
    destruct Hid as (Hid & -> & Hmt). unfold dlt_payload. cbn [payload_bytes].
    rewrite len_app, len_put_uint.
    assert (E : dlt_payload e ((put_uint e 4 id ++ bs) ++ rest) false (N.of_nat 4 + len bs) (x_noar x) None
                = POk (PNonVerbose id bs) rest).
    { unfold dlt_payload. destruct (N.ltb_spec (N.of_nat 4 + len bs) 4) as [Hbad|_]; [lia|].
      rewrite <- app_assoc, (uint_put e 4 id _ Hid). cbn [pbind].
      rewrite take_app by lia. reflexivity. }
    unfold dlt_payload in E.
    destruct (option_map e_mtype x) as [[l|a|n|c|a b]|]; try exact E. contradiction.
  - (* control *)
    destruct x as [x|]; [|discriminate H]. cbn [wf_kind] in H.
    apply andb_true_iff in H as [H Hct]. apply andb_true_iff in H as [Hv Hc].
    cbn [x_verbose x_noar option_map payload_bytes].
    destruct (e_verbose x); [discriminate Hv|].
    destruct (e_mtype x) as [l|a|n|c|a b]; try discriminate Hc.
    unfold dlt_payload. rewrite len_cons.
    destruct (N.ltb_spec (1 + len bs) 1) as [Hbad|_]; [lia|].
    cbn [app u8_complete pbind]. rewrite take_app by lia. cbn [pbind].
    assert (Hcv : control_value ct < 256 /\ control_from_value (control_value ct) = ct).
    { destruct ct as [| |n]; [split; [reflexivity | reflexivity] .. |].
      cbn [wf_control_id control_value] in *. apply andb_true_iff in Hct as [Hct H2].
      apply andb_true_iff in Hct as [Hlt H1]. apply N.ltb_lt in Hlt.
      apply negb_true_iff, N.eqb_neq in H1, H2. split; [exact Hlt|].
      unfold control_from_value. destruct n as [|[q|q|]]; try reflexivity; try congruence.
      destruct q; try reflexivity. congruence. }
    destruct Hcv as [Hlt Hcv]. rewrite (n2b_small _ Hlt), Hcv. reflexivity.
  - (* network trace *)
    destruct x as [x|]; [|discriminate H]. cbn [wf_kind] in H.
    apply andb_true_iff in H as [H Hsl]. apply andb_true_iff in H as [H Hnw].
    apply andb_true_iff in H as [H _]. apply andb_true_iff in H as [Hv Hn]. apply N.eqb_eq in Hn.
    cbn [x_verbose x_noar option_map]. rewrite Hv, nw_payload_bytes_eq.
    rewrite (verbose_payload_roundtrip e (map raw_arg sl) rest _ _ (wf_raw_args sl Hsl))
      by (now rewrite len_map).
    rewrite raw_slices_raw_args. destruct (e_mtype x); try discriminate Hnw. reflexivity.
Qed.

(* ---------- storage header ---------- *)
(* what dlt_storage_header runs on the input found behind [consumed] skipped bytes *)
Definition sh_parse (consumed : N) (rest : list byte) : pres (option (storage_header * N)) :=
  let* (_, i1) := tag [x44; x4c; x54] rest in
  let* (_, i2) := tag [x01] i1 in
  let* (secs, i3) := uint LE 4 i2 in
  let* (micros, i4) := uint LE 4 i3 in
  let* (ecu, after) := zstring 4 i4 in
  POk (Some (mkSH (mkTS secs micros) ecu, consumed)) after.

Lemma dlt_storage_header_eq input :
  dlt_storage_header input =
  if len input <? 16 then PIncomplete None
  else match forward_to_next_storage_header input with
       | Some (consumed, rest) => sh_parse consumed rest
       | None => POk None []
       end.
Proof. reflexivity. Qed.

Lemma storage_header_bytes_eq s :
  storage_header_bytes s =
  [x44; x4c; x54] ++ [x01] ++ put_uint LE 4 (ts_secs (sh_ts s)) ++ put_uint LE 4 (ts_micros (sh_ts s))
  ++ put_zstring (sh_ecu s) 4.
Proof. reflexivity. Qed.

Lemma wf_storage_inv s : wf_storage s = true ->
  ts_secs (sh_ts s) < 256 ^ N.of_nat 4 /\ ts_micros (sh_ts s) < 256 ^ N.of_nat 4 /\ wf_id (sh_ecu s) = true.
Proof.
  unfold wf_storage. intros H. apply andb_true_iff in H as [H He]. apply andb_true_iff in H as [H1 H2].
  apply N.ltb_lt in H1, H2.
  repeat split; [eapply lt_256_pow; [exact H1 | cbn; lia] | eapply lt_256_pow; [exact H2 | cbn; lia] | exact He].
Qed.

Lemma wf_id_len s : wf_id s = true -> len s <= 4.
Proof.
  unfold wf_id. intros H. apply andb_true_iff in H as [H _]. apply andb_true_iff in H as [H _].
  now apply N.leb_le.
Qed.

Lemma len_storage_header_bytes s : wf_storage s = true -> len (storage_header_bytes s) = 16.
Proof.
  intros H. apply wf_storage_inv in H as (_ & _ & He).
  rewrite storage_header_bytes_eq, !len_app, !len_put_uint, (len_put_zstring _ (wf_id_len _ He)).
  reflexivity.
Qed.

Lemma stable_sh_parse consumed s :
  wf_storage s = true -> stable (sh_parse consumed) (storage_header_bytes s) (Some (s, consumed)).
Proof.
  intros H. apply wf_storage_inv in H as (H1 & H2 & He).
  rewrite storage_header_bytes_eq. unfold sh_parse.
  apply (stable_bind (tag [x44; x4c; x54]) _ _ _ _ _ (stable_tag _)). cbv beta.
  apply (stable_bind (tag [x01]) _ _ _ _ _ (stable_tag _)). cbv beta.
  apply (stable_bind (uint LE 4) _ _ _ _ _ (stable_uint LE 4 _ H1)). cbv beta.
  apply (stable_bind (uint LE 4) _ _ _ _ _ (stable_uint LE 4 _ H2)). cbv beta.
  apply (stable_bind_last (zstring 4) _ _ _ _ (stable_id _ He)).
  intros i. destruct s as [[secs micros] ecu]. reflexivity.
Qed.

Lemma storage_header_roundtrip s r :
  wf_storage s = true -> dlt_storage_header (storage_header_bytes s ++ r) = POk (Some (s, 0)) r.
Proof.
  intros H. rewrite dlt_storage_header_eq.
  rewrite len_app, (len_storage_header_bytes s H).
  destruct (N.ltb_spec (16 + len r) 16) as [Hbad|_]; [lia|].
  assert (F : forward_to_next_storage_header (storage_header_bytes s ++ r) =
              Some (0, storage_header_bytes s ++ r)).
  { unfold storage_header_bytes. rewrite <- app_assoc.
    apply (forward_junk [] _). reflexivity. }
  rewrite F. apply (stable_sh_parse 0 s H).
Qed.

Lemma storage_header_short c : len c < 16 -> dlt_storage_header c = PIncomplete None.
Proof.
  intros H. rewrite dlt_storage_header_eq. destruct (N.ltb_spec (len c) 16) as [_|Hbad]; [reflexivity | lia].
Qed.

(* ---------- the part behind the storage header ---------- *)
Definition opt_ext_bytes (x : option ext_header) : list byte :=
  match x with Some x => ext_header_bytes x | None => [] end.
Definition body_bytes (h : std_header) (x : option ext_header) (p : payload) : list byte :=
  std_header_bytes h ++ opt_ext_bytes x ++ payload_bytes (h_endian h) p.

Lemma message_bytes_eq m :
  message_bytes m =
  (match m_storage m with Some s => storage_header_bytes s | None => [] end)
  ++ body_bytes (m_header m) (m_ext m) (m_payload m).
Proof. reflexivity. Qed.

Record wf_body (h : std_header) (x : option ext_header) (p : payload) : Prop := {
  wb_std : wf_std h = true;
  wb_has : h_has_ext h = WellFormed.is_some x;
  wb_ext : wf_opt wf_ext x = true;
  wb_kind : wf_kind x p = true;
  wb_pl : h_payload_length h = len (payload_bytes (h_endian h) p);
  wb_len : overall_length_raw h <= 65535 }.

Lemma wf_message_inv m : wf_message m = true ->
  wf_opt wf_storage (m_storage m) = true /\ wf_body (m_header m) (m_ext m) (m_payload m).
Proof.
  unfold wf_message, len_ok. intros H.
  apply andb_true_iff in H as [H H6]. apply andb_true_iff in H as [H H5]. apply andb_true_iff in H as [H H4].
  apply andb_true_iff in H as [H H3]. apply andb_true_iff in H as [H1 H2].
  apply andb_true_iff in H6 as [H6 H7]. apply N.eqb_eq in H6. apply N.leb_le in H7.
  apply Bool.eqb_prop in H3. split; [exact H1|]. now constructor.
Qed.

Lemma overall_length_small h : overall_length_raw h <= 65535 -> overall_length h = overall_length_raw h.
Proof. intros H. apply N.mod_small. lia. Qed.

Lemma len_opt_ext_bytes h x p : wf_body h x p -> len (opt_ext_bytes x) = if h_has_ext h then 10 else 0.
Proof.
  intros W. rewrite (wb_has _ _ _ W). pose proof (wb_ext _ _ _ W) as E.
  destruct x as [x|]; [apply (len_ext_header_bytes x E) | reflexivity].
Qed.

Lemma len_headers h x p : wf_body h x p ->
  len (std_header_bytes h) + len (opt_ext_bytes x) = calculate_all_headers_length (header_type_byte h).
Proof.
  intros W. rewrite (len_std_header_bytes h (wb_std _ _ _ W)), (len_opt_ext_bytes h x p W).
  symmetry. apply all_headers_length_split, (wb_std _ _ _ W).
Qed.

Lemma len_body_bytes h x p : wf_body h x p -> len (body_bytes h x p) = overall_length h.
Proof.
  intros W. unfold body_bytes. rewrite !len_app, N.add_assoc, (len_headers h x p W), <- (wb_pl _ _ _ W).
  rewrite (overall_length_small h (wb_len _ _ _ W)). apply all_headers_length_eq, (wb_std _ _ _ W).
Qed.

Lemma vpl_ok h x p remaining : wf_body h x p -> overall_length h <= remaining ->
  validated_payload_length h remaining = VplOk (h_payload_length h).
Proof.
  intros W Hr. unfold validated_payload_length.
  pose proof (all_headers_length_eq h (wb_std _ _ _ W)) as AH.
  pose proof (overall_length_small h (wb_len _ _ _ W)) as Ov.
  destruct (N.ltb_spec (overall_length h) (calculate_all_headers_length (header_type_byte h))) as [Hbad|_]; [lia|].
  destruct (N.ltb_spec remaining (overall_length h)) as [Hbad|_]; [lia|].
  f_equal. lia.
Qed.

Lemma vpl_short h x p remaining : wf_body h x p -> remaining < overall_length h ->
  validated_payload_length h remaining = VplIncomplete (Some (overall_length h - remaining)).
Proof.
  intros W Hr. unfold validated_payload_length.
  pose proof (all_headers_length_eq h (wb_std _ _ _ W)) as AH.
  pose proof (overall_length_small h (wb_len _ _ _ W)) as Ov.
  destruct (N.ltb_spec (overall_length h) (calculate_all_headers_length (header_type_byte h))) as [Hbad|_]; [lia|].
  destruct (N.ltb_spec remaining (overall_length h)) as [_|Hbad]; [|lia].
  unfold needed_new. destruct (N.eqb_spec (overall_length h - remaining) 0); [lia | reflexivity].
Qed.

Lemma stable_opt_ext h x p : wf_body h x p ->
  stable (fun i => if h_has_ext h then pmap Some (dlt_extended_header i) else POk None i) (opt_ext_bytes x) x.
Proof.
  intros W. rewrite (wb_has _ _ _ W). pose proof (wb_ext _ _ _ W) as E.
  destruct x as [x|]; cbn [WellFormed.is_some opt_ext_bytes].
  - apply (stable_pmap Some dlt_extended_header). now apply ext_header_stable.
  - apply stable_ret.
Qed.

(* the continuation of dlt_message_after behind the two headers *)
Definition after_ext (shs : option (storage_header * N)) (f : option processed_filter) (header : std_header)
    (plr : vpl) (after_std : list byte) (ext : option ext_header) (after_headers : list byte)
  : pres parsed_message :=
  match plr with
  | VplIncomplete n => PIncomplete n
  | VplError => POk Invalid after_std
  | VplOk payload_length =>
    if filtered_out ext f (h_ecu header) then
      let* (_, after_message) := take payload_length after_headers in
      POk (FilteredOut payload_length) after_message
    else
      let verbose := match ext with Some x => e_verbose x | None => false end in
      let noar := match ext with Some x => e_noar x | None => 0 end in
      let mt := option_map e_mtype ext in
      let* (p, i) := dlt_payload (h_endian header) after_headers verbose payload_length noar mt in
      POk (Item (mkMsg (option_map fst shs) header ext p)) i
  end.

Lemma dlt_message_after_step shs after f h after_std :
  dlt_standard_header after = POk h after_std ->
  dlt_message_after shs after f =
  pbind (if h_has_ext h then pmap Some (dlt_extended_header after_std) else POk None after_std)
        (after_ext shs f h (validated_payload_length h (len after)) after_std).
Proof. intros H. unfold dlt_message_after. rewrite H. reflexivity. Qed.

Theorem message_after_roundtrip shs h x p f rest :
  wf_body h x p ->
  dlt_message_after shs (body_bytes h x p ++ rest) f =
  if filtered_out x f (h_ecu h) then POk (FilteredOut (h_payload_length h)) rest
  else POk (Item (mkMsg (option_map fst shs) h x p)) rest.
Proof.
  intros W.
  destruct (std_header_stable h (wb_std _ _ _ W) (wb_len _ _ _ W)) as [S1 _].
  destruct (stable_opt_ext h x p W) as [X1 _].
  assert (Hlen : overall_length h <= len (body_bytes h x p ++ rest))
    by (rewrite len_app, (len_body_bytes h x p W); lia).
  rewrite (dlt_message_after_step shs _ f h (opt_ext_bytes x ++ payload_bytes (h_endian h) p ++ rest)).
  2:{ unfold body_bytes. rewrite <- !app_assoc. apply S1. }
  rewrite (vpl_ok h x p _ W Hlen), X1. cbn [pbind after_ext].
  destruct (filtered_out x f (h_ecu h)).
  - rewrite take_app by (symmetry; apply (wb_pl _ _ _ W)). reflexivity.
  - rewrite (wb_pl _ _ _ W). change (match x with Some x0 => e_verbose x0 | None => false end) with (x_verbose x).
    change (match x with Some x0 => e_noar x0 | None => 0 end) with (x_noar x).
    rewrite (payload_roundtrip (h_endian h) x p rest (wb_kind _ _ _ W)). reflexivity.
Qed.

(* ---------- C01 ---------- *)
Theorem message_roundtrip_filter m f rest :
  wf_message m = true ->
  dlt_message (message_bytes m ++ rest) f (has_storage m) =
  if filtered_out (m_ext m) f (h_ecu (m_header m))
  then POk (FilteredOut (h_payload_length (m_header m))) rest
  else POk (Item m) rest.
Proof.
  intros H. apply wf_message_inv in H as [Hs W].
  rewrite message_bytes_eq. unfold dlt_message, has_storage.
  destruct m as [st h x p]. cbn [m_storage m_header m_ext m_payload] in *.
  destruct st as [s|].
  - cbn [wf_opt] in Hs. rewrite <- app_assoc, (storage_header_roundtrip s _ Hs). cbn [pbind].
    apply (message_after_roundtrip (Some (s, 0)) h x p f rest W).
  - cbn [app pbind]. apply (message_after_roundtrip None h x p f rest W).
Qed.

Theorem message_roundtrip m rest :
  wf_message m = true ->
  dlt_message (message_bytes m ++ rest) None (has_storage m) = POk (Item m) rest.
Proof. intros H. apply (message_roundtrip_filter m None rest H). Qed.

Theorem message_no_overflow m : wf_message m = true -> message_bytes_overflows m = false.
Proof.
  intros H. apply wf_message_inv in H as [_ W]. unfold message_bytes_overflows.
  apply orb_false_iff. split.
  - unfold overall_length_overflows. pose proof (wb_len _ _ _ W). apply N.leb_gt. lia.
  - pose proof (wb_kind _ _ _ W) as K. destruct (m_payload m) as [args| | |]; try reflexivity.
    cbn [payload_bytes_overflows]. destruct (m_ext m) as [x|]; [|discriminate K].
    cbn [wf_kind] in K. apply andb_true_iff in K as [_ K].
    clear W. induction args as [|a args IH]; [reflexivity|]. cbn [forallb existsb] in *.
    apply andb_true_iff in K as [K1 K2]. now rewrite (arg_no_overflow a K1), (IH K2).
Qed.
