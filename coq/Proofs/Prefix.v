(* Proofs/Prefix.v — C05: every proper prefix of a serialised well-formed message is reported
   Incomplete by dlt_message (any filter, both storage modes) and by dlt_consume_msg, and a hint,
   when present, is at least 1 and at most the number of missing bytes. *)
From Coq Require Import Lia ZifyBool ZifyN ZifyNat.
From DltV.Model Require Import Bytes RustInt Utf8 Nom Dlt Parse.
From DltV.Spec Require Import WellFormed.
From DltV.Proofs Require Import BytesBasics Fields Utf8Lemmas ZString ParseLemmas Search Stable Headers
  ArgsRoundtrip Roundtrip.
Open Scope N_scope.

Lemma proper_prefix_app_r c1 c2' c2 : proper_prefix c2' c2 -> proper_prefix (c1 ++ c2') (c1 ++ c2).
Proof. intros (d & -> & Hd). exists d. split; [now rewrite app_assoc | exact Hd]. Qed.

Lemma proper_prefix_firstn (k : nat) (l : list byte) :
  (k < length l)%nat -> proper_prefix (firstn k l) l /\ len (firstn k l) = N.of_nat k.
Proof.
  intros H. split.
  - exists (skipn k l). split; [symmetry; apply firstn_skipn|].
    intros E. apply (f_equal (@length byte)) in E. rewrite skipn_length in E. cbn in E. lia.
  - unfold len. rewrite firstn_length. lia.
Qed.

(* ---------- behind the storage header ---------- *)
Theorem message_after_prefix shs h x p f c' :
  wf_body h x p -> proper_prefix c' (body_bytes h x p) ->
  exists n, dlt_message_after shs c' f = PIncomplete n /\ hint_ok n (len (body_bytes h x p) - len c').
Proof.
  intros W Hp.
  destruct (std_header_stable h (wb_std _ _ _ W) (wb_len _ _ _ W)) as [S1 S2].
  destruct (stable_opt_ext h x p W) as [X1 X2].
  pose proof (len_body_bytes h x p W) as LB.
  pose proof (proper_prefix_len _ _ Hp) as Lc.
  unfold body_bytes in Hp.
  apply proper_prefix_app in Hp as [Hp|(c2 & -> & Hp)].
  - (* inside the standard header *)
    destruct (S2 c' Hp) as (n & Hn & Hh). exists n. split.
    + unfold dlt_message_after. rewrite Hn. reflexivity.
    + eapply hint_ok_weaken; [exact Hh|]. unfold body_bytes. rewrite len_app. lia.
  - rewrite (dlt_message_after_step shs _ f h c2 (S1 c2)).
    rewrite (vpl_short h x p _ W) by lia.
    apply proper_prefix_app in Hp as [Hp|(c3 & -> & Hp)].
    + (* inside the extended header *)
      destruct (X2 c2 Hp) as (n & Hn & Hh). exists n. rewrite Hn. split; [reflexivity|].
      eapply hint_ok_weaken; [exact Hh|]. unfold body_bytes. rewrite !len_app. lia.
    + (* inside the payload: the exact shortfall *)
      rewrite X1. cbn [pbind after_ext]. eexists. split; [reflexivity|].
      cbn [hint_ok]. lia.
Qed.

(* ---------- dlt_message ---------- *)
Theorem message_prefix m f c' :
  wf_message m = true -> proper_prefix c' (message_bytes m) ->
  exists n, dlt_message c' f (has_storage m) = PIncomplete n /\ hint_ok n (len (message_bytes m) - len c').
Proof.
  intros H Hp. apply wf_message_inv in H as [Hs W].
  rewrite message_bytes_eq in *. unfold dlt_message, has_storage.
  destruct m as [st h x p]. cbn [m_storage m_header m_ext m_payload] in *.
  destruct st as [s|].
  - cbn [wf_opt] in Hs. pose proof (len_storage_header_bytes s Hs) as L16.
    apply proper_prefix_app in Hp as [Hp|(c2 & -> & Hp)].
    + apply proper_prefix_len in Hp. rewrite storage_header_short by lia.
      exists None. split; [reflexivity | exact I].
    + rewrite (storage_header_roundtrip s c2 Hs). cbn [pbind].
      destruct (message_after_prefix (Some (s, 0)) h x p f c2 W Hp) as (n & Hn & Hh).
      exists n. split; [exact Hn|]. eapply hint_ok_weaken; [exact Hh|]. rewrite !len_app. lia.
  - cbn [app pbind] in *. apply (message_after_prefix None h x p f c' W Hp).
Qed.

Theorem message_prefix_firstn m f (k : nat) :
  wf_message m = true -> (k < length (message_bytes m))%nat ->
  exists n, dlt_message (firstn k (message_bytes m)) f (has_storage m) = PIncomplete n
            /\ hint_ok n (len (message_bytes m) - N.of_nat k).
Proof.
  intros H Hk. destruct (proper_prefix_firstn k _ Hk) as [Hp Hl].
  destruct (message_prefix m f _ H Hp) as (n & Hn & Hh). exists n. now rewrite <- Hl.
Qed.

(* ---------- dlt_consume_msg ---------- *)
Definition skip_core (input : list byte) : pres unit :=
  let* (_, i1) := tag [x44; x4c; x54] input in
  let* (_, i2) := tag [x01] i1 in
  let* (_, i) := take 12 i2 in
  POk tt i.

Lemma skip_storage_header_eq input :
  skip_storage_header input =
  pbind (skip_core input) (fun _ i =>
    if len input <? len i then PPanic
    else if len input - len i =? 16 then POk 16 i else PError).
Proof.
  unfold skip_storage_header, skip_core.
  destruct (tag [x44; x4c; x54] input) as [v1 i1| | | |]; cbn [pbind]; try reflexivity.
  destruct (tag [x01] i1) as [v2 i2| | | |]; cbn [pbind]; try reflexivity.
  destruct (take 12 i2) as [v3 i3| | | |]; cbn [pbind]; reflexivity.
Qed.

Lemma stable_skip_core s :
  wf_storage s = true -> stable skip_core (storage_header_bytes s) tt.
Proof.
  intros H. apply wf_storage_inv in H as (_ & _ & He).
  rewrite storage_header_bytes_eq. unfold skip_core.
  apply (stable_bind (tag [x44; x4c; x54]) _ _ _ _ _ (stable_tag _)). cbv beta.
  apply (stable_bind (tag [x01]) _ _ _ _ _ (stable_tag _)). cbv beta.
  eapply (stable_bind_last (take 12) _ _ _ tt); [|reflexivity]. apply stable_take.
  rewrite !len_app, !len_put_uint, (len_put_zstring _ (wf_id_len _ He)). reflexivity.
Qed.

Lemma dlt_consume_msg_nonempty input :
  input <> [] ->
  dlt_consume_msg input =
  let* (skipped, after_sh) := skip_storage_header input in
  let* (header, _) := dlt_standard_header after_sh in
  let* (_, after_message) := take (overall_length header) after_sh in
  POk (Some (skipped + overall_length header)) after_message.
Proof. intros H. destruct input; [congruence | reflexivity]. Qed.

Theorem consume_prefix m c' :
  wf_message m = true -> has_storage m = true -> c' <> [] -> proper_prefix c' (message_bytes m) ->
  exists n, dlt_consume_msg c' = PIncomplete n /\ hint_ok n (len (message_bytes m) - len c').
Proof.
  intros H Hst Hne Hp. apply wf_message_inv in H as [Hs W].
  rewrite message_bytes_eq in *. unfold has_storage in Hst.
  destruct m as [st h x p]. cbn [m_storage m_header m_ext m_payload] in *.
  destruct st as [s|]; [|discriminate Hst]. cbn [wf_opt] in Hs.
  pose proof (len_storage_header_bytes s Hs) as L16.
  destruct (stable_skip_core s Hs) as [K1 K2].
  destruct (std_header_stable h (wb_std _ _ _ W) (wb_len _ _ _ W)) as [S1 S2].
  pose proof (len_body_bytes h x p W) as LB.
  rewrite (dlt_consume_msg_nonempty c' Hne), skip_storage_header_eq.
  apply proper_prefix_app in Hp as [Hp|(c2 & -> & Hp)].
  - (* inside the storage header *)
    destruct (K2 c' Hp) as (n & Hn & Hh). exists n. rewrite Hn. split; [reflexivity|].
    eapply hint_ok_weaken; [exact Hh|]. rewrite len_app. lia.
  - rewrite K1. cbn [pbind]. rewrite len_app, L16.
    destruct (N.ltb_spec (16 + len c2) (len c2)) as [Hbad|_]; [lia|].
    destruct (N.eqb_spec (16 + len c2 - len c2) 16) as [_|Hbad]; [|lia]. cbn [pbind].
    pose proof (proper_prefix_len _ _ Hp) as Lc.
    unfold body_bytes in Hp. apply proper_prefix_app in Hp as [Hp|(c3 & -> & Hp)].
    + (* inside the standard header *)
      destruct (S2 c2 Hp) as (n & Hn & Hh). exists n. rewrite Hn. split; [reflexivity|].
      eapply hint_ok_weaken; [exact Hh|]. unfold body_bytes. rewrite !len_app. lia.
    + (* behind it: take reports the exact shortfall *)
      rewrite S1. cbn [pbind]. rewrite take_short by lia. cbn [pbind].
      eexists. split; [reflexivity|]. cbn [hint_ok]. rewrite !len_app in *. lia.
Qed.

Theorem consume_prefix_firstn m (k : nat) :
  wf_message m = true -> has_storage m = true -> (0 < k < length (message_bytes m))%nat ->
  exists n, dlt_consume_msg (firstn k (message_bytes m)) = PIncomplete n
            /\ hint_ok n (len (message_bytes m) - N.of_nat k).
Proof.
  intros H Hst [Hk0 Hk]. destruct (proper_prefix_firstn k _ Hk) as [Hp Hl].
  assert (Hne : firstn k (message_bytes m) <> []).
  { intros E. rewrite E in Hl. cbn in Hl. lia. }
  destruct (consume_prefix m _ H Hst Hne Hp) as (n & Hn & Hh). exists n. now rewrite <- Hl.
Qed.

Lemma consume_empty : dlt_consume_msg [] = POk None [].
Proof. reflexivity. Qed.
