(* FibexOrder.v — when does [denote] exist (all PDU references defined), and why the order of
   definition does not matter when ids are unique. *)
From Coq Require Import Lia ZifyBool ZifyN ZifyNat.
From Coq Require Import Sorting.Permutation.
From Coq.Strings Require Import Ascii String.
From DltV.Model Require Import Bytes RustInt Dlt Fibex.
From DltV.Spec Require Import FibexSpec.
From DltV.Proofs Require Import BytesBasics FibexSort FibexLookup FibexDenote FibexLoad.
Open Scope N_scope.

(* ---------- all_some ---------- *)
Lemma all_some_none {A} (l : list (option A)) : all_some l = None <-> In None l.
Proof.
  induction l as [|[a|] t IH]; cbn [all_some In].
  - split; [discriminate|contradiction].
  - destruct (all_some t) as [r|]; split.
    + discriminate.
    + intros [H|H]; [discriminate|]. apply IH in H. discriminate.
    + intros _. right. apply IH. reflexivity.
    + reflexivity.
  - split; [intros _; left; reflexivity|reflexivity].
Qed.

Lemma all_some_some {A} (l : list (option A)) r : all_some l = Some r -> l = map Some r.
Proof.
  revert r. induction l as [|[a|] t IH]; intros r H; cbn [all_some] in H.
  - injection H as <-. reflexivity.
  - destruct (all_some t) as [r'|]; [|discriminate]. injection H as <-.
    cbn [map]. f_equal. apply IH. reflexivity.
  - discriminate.
Qed.

Lemma all_some_map_some {A} (r : list A) : all_some (map Some r) = Some r.
Proof. induction r as [|a t IH]; cbn [map all_some]; [reflexivity|]. rewrite IH. reflexivity. Qed.

(* ---------- which references resolve ---------- *)
Lemma assoc_get_map_none {P V} (key : P -> bstr) (val : P -> V) (l : list P) (r : bstr) :
  assoc_get r (map (fun p => (key p, val p)) l) = None <->
  existsb (fun p => bytes_eqb r (key p)) l = false.
Proof.
  induction l as [|p t IH]; cbn [map assoc_get existsb]; [split; reflexivity|].
  destruct (bytes_eqb r (key p)); cbn [orb]; [split; discriminate|exact IH].
Qed.

Lemma pdu_table_none els r : assoc_get r (pdu_table els) = None <-> pdu_defined els r = false.
Proof. unfold pdu_table, pdu_defined. apply assoc_get_map_none. Qed.

Lemma pdu_defined_false els r :
  pdu_defined els r = false <-> (forall p, In (ElPdu p) els -> ap_id p <> r).
Proof.
  unfold pdu_defined. induction els as [|e t IH].
  - cbn. split; [intros _ p []|reflexivity].
  - destruct e as [p|f|i c|i b]; unfold el_pdus in *; cbn [filter_map existsb].
    + rewrite orb_false_iff, IH. split.
      * intros [H1 H2] q [Hq|Hq]; [injection Hq as <-; intros E; subst r; rewrite bytes_eqb_refl in H1; discriminate|apply H2; exact Hq].
      * intros H. split.
        -- destruct (bytes_eqb r (ap_id p)) eqn:E; [|reflexivity].
           apply bytes_eqb_eq in E. exfalso. apply (H p); [left; reflexivity|congruence].
        -- intros q Hq. apply H. right. exact Hq.
    + rewrite IH. split; intros H q Hq; [destruct Hq as [Hq|Hq]; [discriminate|apply H; exact Hq]|apply H; right; exact Hq].
    + rewrite IH. split; intros H q Hq; [destruct Hq as [Hq|Hq]; [discriminate|apply H; exact Hq]|apply H; right; exact Hq].
    + rewrite IH. split; intros H q Hq; [destruct Hq as [Hq|Hq]; [discriminate|apply H; exact Hq]|apply H; right; exact Hq].
Qed.

Lemma in_el_frames els f : In f (el_frames els) <-> In (ElFrame f) els.
Proof.
  unfold el_frames. induction els as [|e t IH]; cbn [filter_map In]; [reflexivity|].
  destruct e as [p|g|i c|i b]; cbn [In]; rewrite IH.
  - split; [intros H; right; exact H|intros [H|H]; [discriminate|exact H]].
  - split; (intros [H|H]; [left; congruence|right; exact H]).
  - split; [intros H; right; exact H|intros [H|H]; [discriminate|exact H]].
  - split; [intros H; right; exact H|intros [H|H]; [discriminate|exact H]].
Qed.

Lemma in_ordered_refs (l : list (N * bstr)) r : In r (ordered_refs l) <-> In r (map snd l).
Proof.
  unfold ordered_refs. split; intros H.
  - eapply Permutation_in; [apply Permutation_map; apply sort_by_key_perm|exact H].
  - eapply Permutation_in; [apply Permutation_map; apply Permutation_sym; apply sort_by_key_perm|exact H].
Qed.

Lemma denote_frame_none els f :
  denote_frame els f = None <-> exists i, In i (af_pdus f) /\ pdu_defined els (snd i) = false.
Proof.
  unfold denote_frame.
  destruct (all_some (map (fun r => assoc_get r (pdu_table els)) (ordered_refs (af_pdus f)))) as [ps|] eqn:E.
  - split; [discriminate|]. intros (i & Hi & Hd). exfalso.
    apply all_some_some in E.
    assert (Hin : In (snd i) (ordered_refs (af_pdus f))) by (apply (proj2 (in_ordered_refs _ _)); apply in_map; exact Hi).
    apply (in_map (fun r => assoc_get r (pdu_table els))) in Hin. rewrite E in Hin.
    apply pdu_table_none in Hd. cbv beta in Hin. rewrite Hd in Hin.
    apply in_map_iff in Hin. destruct Hin as (x & Hx & _). discriminate.
  - split; [|reflexivity]. intros _. apply all_some_none in E.
    apply in_map_iff in E. destruct E as (r & Hr & Hin).
    apply (proj1 (in_ordered_refs _ _)) in Hin. apply in_map_iff in Hin.
    destruct Hin as (i & Hsnd & Hi). subst r.
    exists i. split; [exact Hi|]. apply pdu_table_none. exact Hr.
Qed.

Theorem denote_none els :
  denote els = None <->
  exists f i, In (ElFrame f) els /\ In i (af_pdus f) /\ pdu_defined els (snd i) = false.
Proof.
  unfold denote.
  destruct (all_some (map (fun f => option_map (fun m => (f, m)) (denote_frame els f)) (el_frames els)))
    as [fms|] eqn:E.
  - split; [discriminate|]. intros (f & i & Hf & Hi & Hd). exfalso.
    apply all_some_some in E.
    assert (Hn : denote_frame els f = None) by (apply denote_frame_none; exists i; auto).
    apply in_el_frames in Hf.
    apply (in_map (fun f => option_map (fun m => (f, m)) (denote_frame els f))) in Hf.
    rewrite E in Hf. cbv beta in Hf. rewrite Hn in Hf. cbn [option_map] in Hf.
    apply in_map_iff in Hf. destruct Hf as (x & Hx & _). discriminate.
  - split; [|reflexivity]. intros _. apply all_some_none in E.
    apply in_map_iff in E. destruct E as (f & Hf & Hin).
    destruct (denote_frame els f) eqn:Ed; [discriminate|].
    apply denote_frame_none in Ed. destruct Ed as (i & Hi & Hd).
    exists f, i. split; [apply in_el_frames; exact Hin|]. auto.
Qed.

Lemma refs_defined_denote els : refs_defined els = true -> denote els <> None.
Proof.
  intros H Hn. apply denote_none in Hn. destruct Hn as (f & i & Hf & Hi & Hd).
  unfold refs_defined in H. rewrite forallb_forall in H.
  apply in_el_frames in Hf. specialize (H f Hf). rewrite forallb_forall in H.
  specialize (H i Hi). congruence.
Qed.

(* ---------- C11, load ---------- *)
Theorem load_consistent (l : layout) :
  l <> [] -> elements_ok (concat l) = true -> refs_defined (concat l) = true ->
  exists m d, gather_fibex_data (files_of l) = Some m /\ denote (concat l) = Some d /\ meta_equiv m d.
Proof.
  intros Hne Hok Hrefs. pose proof (load_rendered l Hne Hok) as H.
  pose proof (refs_defined_denote _ Hrefs) as Hd.
  destruct (denote (concat l)) as [d|]; [|contradiction].
  destruct H as (m & Hm & He). exists m, d. auto.
Qed.

Theorem load_missing_pdu (l : layout) f i :
  l <> [] -> elements_ok (concat l) = true ->
  In (ElFrame f) (concat l) -> In i (af_pdus f) ->
  (forall p, In (ElPdu p) (concat l) -> ap_id p <> snd i) ->
  load (files_of l) = Refused /\ gather_fibex_data (files_of l) = None.
Proof.
  intros Hne Hok Hf Hi Hundef. pose proof (load_rendered l Hne Hok) as H.
  assert (Hd : denote (concat l) = None).
  { apply denote_none. exists f, i. split; [exact Hf|]. split; [exact Hi|].
    apply pdu_defined_false. exact Hundef. }
  rewrite Hd in H. exact H.
Qed.

(* ---------- order of definition is irrelevant when ids are unique ---------- *)
Lemma filter_map_perm {A B} (f : A -> option B) l l' :
  Permutation l l' -> Permutation (filter_map f l) (filter_map f l').
Proof.
  induction 1 as [|x l l' _ IH|x y l|l l' l'' _ IH1 _ IH2]; cbn [filter_map].
  - apply Permutation_refl.
  - destruct (f x); [apply perm_skip|]; exact IH.
  - destruct (f x), (f y); try apply Permutation_refl. apply perm_swap.
  - eapply Permutation_trans; eassumption.
Qed.

Lemma filter_map_ext {A B} (f g : A -> option B) l :
  (forall a, f a = g a) -> filter_map f l = filter_map g l.
Proof.
  intros H. induction l as [|a t IH]; cbn [filter_map]; [reflexivity|]. rewrite H, IH. reflexivity.
Qed.

Lemma assoc_get_some_in_keys {V} k (l : list (bstr * V)) v : assoc_get k l = Some v -> In k (map fst l).
Proof. intros H. apply assoc_get_in in H. apply (in_map fst) in H. exact H. Qed.

Lemma assoc_get_perm {V} (l l' : list (bstr * V)) :
  Permutation l l' -> NoDup (map fst l) -> forall k, assoc_get k l = assoc_get k l'.
Proof.
  induction 1 as [|[kx vx] l l' Hp IH|[kx vx] [ky vy] l|l l' l'' Hp1 IH1 Hp2 IH2]; intros Hnd k.
  - reflexivity.
  - cbn [assoc_get]. destruct (bytes_eqb k kx); [reflexivity|].
    apply IH. cbn [map fst] in Hnd. apply NoDup_cons_iff in Hnd. apply Hnd.
  - cbn [assoc_get].
    destruct (bytes_eqb k ky) eqn:Ey; destruct (bytes_eqb k kx) eqn:Ex; try reflexivity.
    apply bytes_eqb_eq in Ey, Ex. subst kx ky. cbn [map fst] in Hnd.
    apply NoDup_cons_iff in Hnd. destruct Hnd as [Hnd _]. exfalso. apply Hnd. left. reflexivity.
  - rewrite IH1 by exact Hnd. apply IH2.
    eapply Permutation_NoDup; [apply Permutation_map; exact Hp1|exact Hnd].
Qed.

Lemma key_get_perm {V} (l l' : list (frame_key * V)) :
  Permutation l l' -> NoDup (map fst l) -> forall k, key_get k l = key_get k l'.
Proof.
  induction 1 as [|[kx vx] l l' Hp IH|[kx vx] [ky vy] l|l l' l'' Hp1 IH1 Hp2 IH2]; intros Hnd k.
  - reflexivity.
  - cbn [key_get]. destruct (frame_key_eqb k kx); [reflexivity|].
    apply IH. cbn [map fst] in Hnd. apply NoDup_cons_iff in Hnd. apply Hnd.
  - cbn [key_get].
    destruct (frame_key_eqb k ky) eqn:Ey; destruct (frame_key_eqb k kx) eqn:Ex; try reflexivity.
    apply frame_key_eqb_eq in Ey, Ex. subst kx ky. cbn [map fst] in Hnd.
    apply NoDup_cons_iff in Hnd. destruct Hnd as [Hnd _]. exfalso. apply Hnd. left. reflexivity.
  - rewrite IH1 by exact Hnd. apply IH2.
    eapply Permutation_NoDup; [apply Permutation_map; exact Hp1|exact Hnd].
Qed.

Lemma last_def_unique {V} (l : list (bstr * V)) k :
  NoDup (map fst l) -> last_def k l = assoc_get k l.
Proof.
  intros Hnd. unfold last_def. apply assoc_get_perm.
  - apply Permutation_sym, Permutation_rev.
  - rewrite map_rev. apply NoDup_rev. exact Hnd.
Qed.

Record unique_ids (els : list element) : Prop := mkUnique {
  u_pdus : NoDup (map ap_id (el_pdus els));
  u_frames : NoDup (map af_id (el_frames els));
  u_signals : NoDup (map fst (el_signals els));
  u_codings : NoDup (map fst (el_codings els)) }.

Lemma unique_ids_perm els els' : Permutation els els' -> unique_ids els -> unique_ids els'.
Proof.
  intros Hp [H1 H2 H3 H4]. split.
  - eapply Permutation_NoDup; [apply Permutation_map, filter_map_perm; exact Hp|exact H1].
  - eapply Permutation_NoDup; [apply Permutation_map, filter_map_perm; exact Hp|exact H2].
  - eapply Permutation_NoDup; [apply Permutation_map, filter_map_perm; exact Hp|exact H3].
  - eapply Permutation_NoDup; [apply Permutation_map, filter_map_perm; exact Hp|exact H4].
Qed.

Section Perm.
Variables els els' : list element.
Hypothesis Hperm : Permutation els els'.
Hypothesis Huniq : unique_ids els.

Lemma signal_type_perm r : signal_type els r = signal_type els' r.
Proof.
  pose proof (unique_ids_perm els els' Hperm Huniq) as Huniq'.
  unfold signal_type. destruct (assoc_get r standard_signals); [reflexivity|].
  rewrite (last_def_unique (el_signals els) r (u_signals _ Huniq)).
  rewrite (last_def_unique (el_signals els') r (u_signals _ Huniq')).
  rewrite (assoc_get_perm (el_signals els) (el_signals els')
             (filter_map_perm _ _ _ Hperm) (u_signals _ Huniq) r).
  destruct (assoc_get r (el_signals els')) as [c|]; [|reflexivity].
  rewrite (last_def_unique (el_codings els) c (u_codings _ Huniq)).
  rewrite (last_def_unique (el_codings els') c (u_codings _ Huniq')).
  rewrite (assoc_get_perm (el_codings els) (el_codings els')
             (filter_map_perm _ _ _ Hperm) (u_codings _ Huniq) c).
  reflexivity.
Qed.

Lemma denote_pdu_perm p : denote_pdu els p = denote_pdu els' p.
Proof. unfold denote_pdu. f_equal. apply filter_map_ext. exact signal_type_perm. Qed.

Lemma pdu_table_perm k : assoc_get k (pdu_table els) = assoc_get k (pdu_table els').
Proof.
  apply assoc_get_perm.
  - unfold pdu_table.
    rewrite (map_ext (fun p => (ap_id p, denote_pdu els' p)) (fun p => (ap_id p, denote_pdu els p)))
      by (intros p; rewrite denote_pdu_perm; reflexivity).
    apply Permutation_map, filter_map_perm. exact Hperm.
  - unfold pdu_table. rewrite map_map. cbn [fst]. exact (u_pdus _ Huniq).
Qed.

Lemma denote_frame_perm f : denote_frame els f = denote_frame els' f.
Proof.
  unfold denote_frame.
  rewrite (map_ext (fun r => assoc_get r (pdu_table els)) (fun r => assoc_get r (pdu_table els')) pdu_table_perm).
  reflexivity.
Qed.
End Perm.

Lemma all_some_perm {A} (l l' : list (option A)) :
  Permutation l l' ->
  match all_some l, all_some l' with
  | Some r, Some r' => Permutation r r'
  | None, None => True
  | _, _ => False
  end.
Proof.
  intros Hp.
  destruct (all_some l) as [r|] eqn:E; destruct (all_some l') as [r'|] eqn:E'.
  - apply all_some_some in E, E'. subst l l'.
    apply Permutation_map_inv in Hp. destruct Hp as (r3 & Hr3 & Hp).
    assert (r = r3).
    { clear -Hr3. revert r3 Hr3. induction r as [|a t IH]; intros [|b u] H; cbn [map] in H;
        try discriminate; [reflexivity|]. injection H as -> H. f_equal. apply IH. exact H. }
    subst r3. apply Permutation_sym. exact Hp.
  - apply all_some_none in E'. apply all_some_some in E. subst l.
    apply Permutation_sym in Hp. apply (Permutation_in _ Hp) in E'.
    apply in_map_iff in E'. destruct E' as (x & Hx & _). discriminate.
  - apply all_some_none in E. apply all_some_some in E'. subst l'.
    apply (Permutation_in _ Hp) in E.
    apply in_map_iff in E. destruct E as (x & Hx & _). discriminate.
  - exact I.
Qed.

Lemma frames_fst els fs fms :
  all_some (map (fun f => option_map (fun m => (f, m)) (denote_frame els f)) fs) = Some fms ->
  map fst fms = fs.
Proof.
  revert fms. induction fs as [|f t IH]; intros fms H; cbn [map all_some] in H.
  - injection H as <-. reflexivity.
  - destruct (denote_frame els f) as [m|]; cbn [option_map] in H; [|discriminate].
    destruct (all_some _) as [r|]; [|discriminate]. injection H as <-.
    cbn [map fst]. f_equal. apply IH. reflexivity.
Qed.

Lemma keyed_keys_in (fms : list (aframe * frame_metadata)) c a id :
  In (c, a, id) (map fst (filter_map keyed_entry fms)) -> In id (map af_id (map fst fms)).
Proof.
  induction fms as [|[f m] t IH]; cbn [filter_map map In]; [tauto|].
  unfold keyed_entry at 1. cbn [fst snd].
  destruct (af_context_id f) as [c'|]; [destruct (af_application_id f) as [a'|]|].
  - cbn [map fst In]. intros [H|H]; [left; congruence|right; apply IH; exact H].
  - intros H. right. apply IH. exact H.
  - intros H. right. apply IH. exact H.
Qed.

Lemma keyed_keys_nodup (fms : list (aframe * frame_metadata)) :
  NoDup (map af_id (map fst fms)) -> NoDup (map fst (filter_map keyed_entry fms)).
Proof.
  induction fms as [|[f m] t IH]; cbn [filter_map map]; intros Hnd; [constructor|].
  cbn [fst] in Hnd. apply NoDup_cons_iff in Hnd. destruct Hnd as [Hnin Hnd].
  unfold keyed_entry at 1. cbn [fst snd].
  destruct (af_context_id f) as [c|]; [destruct (af_application_id f) as [a|]|]; try (apply IH; exact Hnd).
  cbn [map fst]. constructor; [|apply IH; exact Hnd].
  intros Hin. apply Hnin. apply keyed_keys_in in Hin. exact Hin.
Qed.

Theorem denote_perm els els' :
  Permutation els els' -> unique_ids els ->
  match denote els, denote els' with
  | Some d, Some d' => meta_equiv d d'
  | None, None => True
  | _, _ => False
  end.
Proof.
  intros Hp Hu. unfold denote.
  set (F := fun f => option_map (fun m => (f, m)) (denote_frame els f)).
  set (F' := fun f => option_map (fun m => (f, m)) (denote_frame els' f)).
  assert (HF : forall f, F' f = F f)
    by (intros f; unfold F, F'; rewrite (denote_frame_perm els els' Hp Hu f); reflexivity).
  rewrite (map_ext F' F HF).
  pose proof (all_some_perm (map F (el_frames els)) (map F (el_frames els'))
                (Permutation_map F (filter_map_perm _ _ _ Hp))) as H.
  destruct (all_some (map F (el_frames els))) as [fms|] eqn:E;
    destruct (all_some (map F (el_frames els'))) as [fms'|] eqn:E'; try exact H.
  pose proof (frames_fst els _ _ E) as Hfst.
  split; intros k; cbn [frame_map frame_map_with_key].
  - apply assoc_get_perm.
    + apply Permutation_map. exact H.
    + rewrite map_map. cbn [fst]. rewrite <- (map_map fst af_id), Hfst. exact (u_frames _ Hu).
  - apply key_get_perm.
    + apply filter_map_perm. exact H.
    + apply keyed_keys_nodup. rewrite Hfst. exact (u_frames _ Hu).
Qed.

(* ---------- the side conditions do not depend on the order either ---------- *)
Lemma elements_ok_perm els els' : Permutation els els' -> elements_ok els = true -> elements_ok els' = true.
Proof.
  intros Hp H. unfold elements_ok in *. rewrite forallb_forall in *.
  intros e He. apply H. eapply Permutation_in; [apply Permutation_sym; exact Hp|exact He].
Qed.

Lemma pdu_defined_perm els els' r : Permutation els els' -> pdu_defined els r = pdu_defined els' r.
Proof.
  intros Hp.
  destruct (pdu_defined els r) eqn:E; destruct (pdu_defined els' r) eqn:E'; try reflexivity.
  - rewrite pdu_defined_false in E'. assert (E2 : pdu_defined els r = false).
    { apply pdu_defined_false. intros p Hin. apply E'. eapply Permutation_in; eassumption. }
    congruence.
  - rewrite pdu_defined_false in E. assert (E2 : pdu_defined els' r = false).
    { apply pdu_defined_false. intros p Hin. apply E.
      eapply Permutation_in; [apply Permutation_sym; exact Hp|exact Hin]. }
    congruence.
Qed.

Lemma refs_defined_perm els els' : Permutation els els' -> refs_defined els = true -> refs_defined els' = true.
Proof.
  intros Hp H. unfold refs_defined in *. rewrite forallb_forall in *.
  intros f Hf. apply in_el_frames in Hf.
  assert (Hf' : In f (el_frames els))
    by (apply in_el_frames; eapply Permutation_in; [apply Permutation_sym; exact Hp|exact Hf]).
  specialize (H f Hf'). rewrite forallb_forall in *. intros i Hi.
  rewrite <- (pdu_defined_perm els els' (snd i) Hp). apply H. exact Hi.
Qed.

(* ---------- C11, load, stated on the abstract model ---------- *)
Definition model_ok (a : afibex) : bool :=
  elements_ok (render_elements a) && refs_defined (render_elements a).

Theorem load_layout (a : afibex) (l : layout) :
  is_layout_of a l -> model_ok a = true ->
  exists m d, gather_fibex_data (files_of l) = Some m /\ denote (concat l) = Some d /\ meta_equiv m d.
Proof.
  intros [Hne Hp] Hok. unfold model_ok in Hok. apply andb_true_iff in Hok. destruct Hok as [Hok Hrefs].
  apply load_consistent; [exact Hne| |].
  - eapply elements_ok_perm; [apply Permutation_sym; exact Hp|exact Hok].
  - eapply refs_defined_perm; [apply Permutation_sym; exact Hp|exact Hrefs].
Qed.

Lemma meta_equiv_trans m1 m2 m3 : meta_equiv m1 m2 -> meta_equiv m2 m3 -> meta_equiv m1 m3.
Proof.
  intros [A1 A2] [B1 B2]. split; intros k; [rewrite A1; apply B1|rewrite A2; apply B2].
Qed.

(* with unique ids the result is THE meaning of the model, whatever the layout *)
Theorem load_layout_canonical (a : afibex) (l : layout) :
  is_layout_of a l -> model_ok a = true -> unique_ids (render_elements a) ->
  exists m d, gather_fibex_data (files_of l) = Some m /\ denote (render_elements a) = Some d /\
              meta_equiv m d.
Proof.
  intros Hl Hok Hu. destruct (load_layout a l Hl Hok) as (m & d' & Hm & Hd' & He).
  destruct Hl as [_ Hp].
  pose proof (denote_perm (render_elements a) (concat l) (Permutation_sym Hp) Hu) as H.
  rewrite Hd' in H. destruct (denote (render_elements a)) as [d|]; [|contradiction].
  exists m, d. split; [exact Hm|]. split; [reflexivity|].
  eapply meta_equiv_trans; [exact He|].
  destruct H as [H1 H2]. split; intros k; [rewrite H1|rewrite H2]; reflexivity.
Qed.

Theorem load_layout_missing_pdu (a : afibex) (l : layout) f i :
  is_layout_of a l -> elements_ok (render_elements a) = true ->
  In f (a_frames a) -> In i (af_pdus f) ->
  (forall p, In p (a_pdus a) -> ap_id p <> snd i) ->
  load (files_of l) = Refused /\ gather_fibex_data (files_of l) = None.
Proof.
  intros [Hne Hp] Hok Hf Hi Hundef.
  apply (load_missing_pdu l f i Hne).
  - eapply elements_ok_perm; [apply Permutation_sym; exact Hp|exact Hok].
  - eapply Permutation_in; [apply Permutation_sym; exact Hp|].
    unfold render_elements. apply in_or_app. right. apply in_or_app. left. apply in_map. exact Hf.
  - exact Hi.
  - intros p Hin. apply Hundef.
    apply (Permutation_in _ Hp) in Hin. unfold render_elements in Hin.
    apply in_app_or in Hin. destruct Hin as [Hin|Hin].
    + apply in_map_iff in Hin. destruct Hin as (q & Hq & Hin). injection Hq as <-. exact Hin.
    + exfalso. apply in_app_or in Hin. destruct Hin as [Hin|Hin].
      * apply in_map_iff in Hin. destruct Hin as (q & Hq & _). discriminate.
      * apply in_app_or in Hin. destruct Hin as [Hin|Hin];
          apply in_map_iff in Hin; destruct Hin as (q & Hq & _); discriminate.
Qed.
