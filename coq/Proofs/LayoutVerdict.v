(* Proofs/LayoutVerdict.v — C02: the projection of the parser's result that is compared with the
   reference decoder of Spec/Layout.v (hints and error texts are projected away). *)
From DltV.Model Require Import Bytes Nom Dlt Parse.
From DltV.Spec Require Import Layout.
Open Scope N_scope.

(* [total]: length of the input the parser was run on *)
Definition verdict_of_len (x : pres parsed_message) (total : N) : verdict :=
  match x with
  | POk (Item m) rest => VMessage m (total - len rest)
  | POk (FilteredOut _) _ => VReject        (* cannot occur without a filter *)
  | POk Invalid _ => VReject                (* cannot occur: see Consumption.dlt_message_consumes *)
  | PIncomplete _ => VIncomplete
  | PError => VReject
  | PFailure => VReject
  | PPanic => VReject                       (* cannot occur: Consumption.dlt_message_no_panic *)
  end.
Definition verdict_of (x : pres parsed_message) (input : list byte) : verdict :=
  verdict_of_len x (len input).
