(* FibexSort.v — the model of `sort_by_key` is a stable sort: a permutation of its input, ordered
   by key, and elements with equal keys keep their relative order. *)
From Coq Require Import Lia ZifyBool ZifyN ZifyNat.
From Coq Require Import Sorting.Permutation Sorting.Sorted.
From DltV.Model Require Import Bytes RustInt Dlt Fibex.
Open Scope N_scope.

Definition key_le {A} (a b : N * A) : Prop := fst a <= fst b.
Definition has_key {A} (k : N) (p : N * A) : bool := fst p =? k.

Section Sort.
Context {A : Type}.
Implicit Types (x : N * A) (l : list (N * A)).

Lemma insert_by_key_perm x l : Permutation (insert_by_key x l) (x :: l).
Proof.
  induction l as [|y t IH]; cbn [insert_by_key]; [apply Permutation_refl|].
  destruct (fst x <=? fst y); [apply Permutation_refl|].
  eapply Permutation_trans; [apply perm_skip; exact IH|apply perm_swap].
Qed.

Lemma sort_by_key_perm l : Permutation (sort_by_key l) l.
Proof.
  induction l as [|x t IH]; cbn [sort_by_key]; [apply Permutation_refl|].
  eapply Permutation_trans; [apply insert_by_key_perm|apply perm_skip; exact IH].
Qed.

Lemma insert_by_key_sorted x l :
  StronglySorted key_le l -> StronglySorted key_le (insert_by_key x l).
Proof.
  induction l as [|y t IH]; intros Hs; cbn [insert_by_key].
  - constructor; constructor.
  - apply StronglySorted_inv in Hs. destruct Hs as [Hst Hall].
    destruct (fst x <=? fst y) eqn:Hxy.
    + constructor; [constructor; assumption|].
      constructor; [unfold key_le; lia|].
      eapply Forall_impl; [|exact Hall]. intros z Hz. unfold key_le in *. lia.
    + constructor; [apply IH; exact Hst|].
      eapply Permutation_Forall; [apply Permutation_sym; apply insert_by_key_perm|].
      constructor; [unfold key_le; lia|exact Hall].
Qed.

Lemma sort_by_key_sorted l : StronglySorted key_le (sort_by_key l).
Proof.
  induction l as [|x t IH]; cbn [sort_by_key]; [constructor|].
  apply insert_by_key_sorted. exact IH.
Qed.

Lemma insert_by_key_stable k x l :
  filter (has_key k) (insert_by_key x l) = filter (has_key k) (x :: l).
Proof.
  induction l as [|y t IH]; cbn [insert_by_key]; [reflexivity|].
  destruct (fst x <=? fst y) eqn:Hxy; [reflexivity|].
  cbn [filter] in *. rewrite IH. unfold has_key.
  destruct (fst y =? k) eqn:Hy; destruct (fst x =? k) eqn:Hx; try reflexivity. lia.
Qed.

Lemma sort_by_key_stable k l :
  filter (has_key k) (sort_by_key l) = filter (has_key k) l.
Proof.
  induction l as [|x t IH]; cbn [sort_by_key]; [reflexivity|].
  rewrite insert_by_key_stable. cbn [filter]. rewrite IH. reflexivity.
Qed.

Theorem sort_by_key_spec l :
  Permutation (sort_by_key l) l /\
  StronglySorted key_le (sort_by_key l) /\
  (forall k, filter (has_key k) (sort_by_key l) = filter (has_key k) l).
Proof.
  split; [apply sort_by_key_perm|]. split; [apply sort_by_key_sorted|].
  intros k. apply sort_by_key_stable.
Qed.

(* the three properties determine the result: any other list that has them is the same list *)
Lemma filter_key_cons k x t :
  filter (has_key k) (x :: t) = if fst x =? k then x :: filter (has_key k) t else filter (has_key k) t.
Proof. reflexivity. Qed.

Lemma sorted_stable_unique : forall l1 l2,
  StronglySorted key_le l1 -> StronglySorted key_le l2 ->
  (forall k, filter (has_key k) l1 = filter (has_key k) l2) -> l1 = l2.
Proof.
  induction l1 as [|x t IH]; intros l2 H1 H2 Hf.
  - destruct l2 as [|y u]; [reflexivity|].
    specialize (Hf (fst y)). rewrite filter_key_cons, N.eqb_refl in Hf. discriminate.
  - destruct l2 as [|y u].
    + specialize (Hf (fst x)). rewrite filter_key_cons, N.eqb_refl in Hf. discriminate.
    + apply StronglySorted_inv in H1. destruct H1 as [H1t H1a].
      apply StronglySorted_inv in H2. destruct H2 as [H2t H2a].
      (* the heads carry the least key of either list, so they are the same element *)
      assert (Hkx : fst y <= fst x).
      { pose proof (Hf (fst x)) as E. rewrite (filter_key_cons (fst x) x t), N.eqb_refl in E.
        assert (Hin : In x (filter (has_key (fst x)) (y :: u))) by (rewrite <- E; left; reflexivity).
        apply filter_In in Hin. destruct Hin as [Hin _]. destruct Hin as [->|Hin]; [lia|].
        rewrite Forall_forall in H2a. apply H2a in Hin. exact Hin. }
      assert (Hky : fst x <= fst y).
      { pose proof (Hf (fst y)) as E. rewrite (filter_key_cons (fst y) y u), N.eqb_refl in E.
        assert (Hin : In y (filter (has_key (fst y)) (x :: t))) by (rewrite E; left; reflexivity).
        apply filter_In in Hin. destruct Hin as [Hin _]. destruct Hin as [->|Hin]; [lia|].
        rewrite Forall_forall in H1a. apply H1a in Hin. exact Hin. }
      assert (Hxy : x = y).
      { pose proof (Hf (fst x)) as E. rewrite !filter_key_cons, N.eqb_refl in E.
        replace (fst y =? fst x) with true in E by lia.
        injection E as E _. exact E. }
      subst y. f_equal. apply IH; [exact H1t|exact H2t|].
      intros k. specialize (Hf k). rewrite !filter_key_cons in Hf.
      destruct (fst x =? k); [injection Hf as Hf; exact Hf|exact Hf].
Qed.

Theorem sort_by_key_unique l l' :
  StronglySorted key_le l' ->
  (forall k, filter (has_key k) l' = filter (has_key k) l) ->
  l' = sort_by_key l.
Proof.
  intros Hs Hf. apply sorted_stable_unique; [exact Hs|apply sort_by_key_sorted|].
  intros k. rewrite Hf, sort_by_key_stable. reflexivity.
Qed.

End Sort.
