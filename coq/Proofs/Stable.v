(* Proofs/Stable.v — "prefix-stable" parsers: on its own bytes [c] followed by anything the parser
   returns [v] and exactly the continuation; on every proper prefix of [c] it reports Incomplete
   with a hint that is at least 1 and at most the number of missing bytes.  Closed under
   sequencing.  This gives both the round trip of the headers (C01) and C05. *)
From Coq Require Import Lia ZifyBool ZifyN ZifyNat.
From DltV.Model Require Import Bytes Utf8 Nom Dlt Parse.
From DltV.Proofs Require Import BytesBasics Fields Utf8Lemmas ZString ParseLemmas.
Open Scope N_scope.

Definition proper_prefix (c' c : list byte) : Prop := exists d, c = c' ++ d /\ d <> [].
Definition hint_ok (n : option N) (missing : N) : Prop :=
  match n with None => True | Some h => 1 <= h <= missing end.

Definition stable {A} (p : list byte -> pres A) (c : list byte) (v : A) : Prop :=
  (forall r, p (c ++ r) = POk v r) /\
  (forall c', proper_prefix c' c -> exists n, p c' = PIncomplete n /\ hint_ok n (len c - len c')).

Lemma proper_prefix_len c' c : proper_prefix c' c -> len c' < len c.
Proof.
  intros (d & -> & Hd). rewrite len_app. destruct d; [congruence|]. rewrite len_cons. lia.
Qed.
Lemma proper_prefix_nil c' : ~ proper_prefix c' [].
Proof. intros H. apply proper_prefix_len in H. cbn in H. lia. Qed.

Lemma hint_ok_weaken n a b : hint_ok n a -> a <= b -> hint_ok n b.
Proof. destruct n; cbn; [lia | trivial]. Qed.

(* a proper prefix of c1 ++ c2 is a proper prefix of c1, or c1 followed by a proper prefix of c2 *)
Lemma proper_prefix_app c' c1 c2 :
  proper_prefix c' (c1 ++ c2) ->
  proper_prefix c' c1 \/ exists c2', c' = c1 ++ c2' /\ proper_prefix c2' c2.
Proof.
  revert c'; induction c1 as [|a c1 IH]; intros c' (d & H & Hd).
  - right. exists c'. split; [reflexivity | now exists d].
  - destruct c' as [|b c'].
    + left. exists (a :: c1). split; [reflexivity | discriminate].
    + cbn [app] in H. injection H as <- H.
      destruct (IH c' (ex_intro _ d (conj H Hd))) as [(d1 & -> & Hd1)|(c2' & -> & Hp)].
      * left. exists d1. split; [reflexivity | exact Hd1].
      * right. exists c2'. split; [reflexivity | exact Hp].
Qed.

Lemma stable_ret {A} (v : A) : stable (fun i => POk v i) [] v.
Proof. split; [reflexivity | intros c' H; now apply proper_prefix_nil in H]. Qed.

Lemma stable_ext {A} (p q : list byte -> pres A) c v :
  (forall i, p i = q i) -> stable p c v -> stable q c v.
Proof.
  intros E [H1 H2]. split.
  - intros r. now rewrite <- E.
  - intros c' Hp. destruct (H2 c' Hp) as (n & Hn & Hh). exists n. now rewrite <- E.
Qed.

Lemma stable_bind {A B} (p1 : list byte -> pres A) (p2 : A -> list byte -> pres B) c1 c2 v1 v2 :
  stable p1 c1 v1 -> stable (p2 v1) c2 v2 ->
  stable (fun i => pbind (p1 i) p2) (c1 ++ c2) v2.
Proof.
  intros [A1 A2] [B1 B2]. split.
  - intros r. rewrite <- app_assoc, A1. cbn [pbind]. apply B1.
  - intros c' Hp. apply proper_prefix_app in Hp as [Hp|(c2' & -> & Hp)].
    + destruct (A2 c' Hp) as (n & Hn & Hh). exists n. rewrite Hn. split; [reflexivity|].
      eapply hint_ok_weaken; [exact Hh|]. rewrite len_app. lia.
    + rewrite A1. cbn [pbind]. destruct (B2 c2' Hp) as (n & Hn & Hh). exists n. split; [exact Hn|].
      eapply hint_ok_weaken; [exact Hh|]. rewrite !len_app. lia.
Qed.

Lemma stable_pmap {A B} (f : A -> B) (p : list byte -> pres A) c v :
  stable p c v -> stable (fun i => pmap f (p i)) c (f v).
Proof.
  intros [H1 H2]. split.
  - intros r. unfold pmap. now rewrite H1.
  - intros c' Hp. destruct (H2 c' Hp) as (n & Hn & Hh). exists n. unfold pmap. now rewrite Hn.
Qed.

Lemma stable_uint e k v : v < 256 ^ N.of_nat k -> stable (uint e k) (put_uint e k v) v.
Proof.
  intros Hv. split.
  - intros r. now apply uint_put.
  - intros c' Hp. apply proper_prefix_len in Hp. rewrite len_put_uint in *.
    exists (Some (N.of_nat k - len c')). split; [now apply uint_short | cbn; lia].
Qed.

Lemma stable_u8 v : v < 256 -> stable u8 [n2b v] v.
Proof. intros H. apply (stable_uint BE 1 v). exact H. Qed.

Lemma stable_sint e k z : (0 < k)%nat -> in_signed (8 * N.of_nat k) z = true ->
  stable (sint e k) (put_sint e k z) z.
Proof.
  intros Hk Hz. unfold sint.
  assert (E : z = to_signed (8 * N.of_nat k) (of_signed (8 * N.of_nat k) z))
    by (symmetry; apply to_signed_of_signed; [lia | exact Hz]).
  rewrite E at 2. apply (stable_pmap (to_signed (8 * N.of_nat k)) (uint e k)).
  apply stable_uint. rewrite pow256. apply of_signed_bound.
Qed.

Lemma stable_take n c : len c = n -> stable (take n) c c.
Proof.
  intros H. split.
  - intros r. now apply take_app.
  - intros c' Hp. apply proper_prefix_len in Hp.
    exists (Some (n - len c')). split; [apply take_short; lia | cbn; lia].
Qed.

Lemma compare_tag_prefix t c' : proper_prefix c' t -> compare_tag t c' = None.
Proof.
  revert c'; induction t as [|a t IH]; intros c' Hp; [now apply proper_prefix_nil in Hp|].
  destruct c' as [|b c']; [reflexivity|]. destruct Hp as (d & H & Hd).
  cbn [app] in H. injection H as -> H. cbn [compare_tag]. rewrite byte_eqb_refl.
  apply IH. now exists d.
Qed.
Lemma stable_tag t : stable (tag t) t t.
Proof.
  split.
  - intros r. apply tag_app.
  - intros c' Hp. pose proof (proper_prefix_len _ _ Hp) as L.
    unfold tag. rewrite (compare_tag_prefix _ _ Hp).
    exists (Some (len t - len c')). split; [|cbn; lia].
    unfold needed_new. destruct (N.eqb_spec (len t - len c') 0); [lia | reflexivity].
Qed.

(* a NUL-free, valid UTF-8 string written into a field of [size] bytes (NUL padded) *)
Lemma stable_zstring size s :
  no_nul s = true -> valid_utf8 s = true -> len s <= size ->
  stable (zstring size) (s ++ repeat x00 (N.to_nat (size - len s))) s.
Proof.
  intros Hn Hv Hl. split.
  - intros r. rewrite <- app_assoc. now apply zstring_put_size.
  - intros c' Hp. apply proper_prefix_len in Hp. rewrite len_app, len_repeat in Hp.
    destruct (zstring_short size c') as (n & E & Hh); [lia|].
    exists (Some n). split; [exact E|]. cbn. rewrite len_app, len_repeat. lia.
Qed.

Lemma stable_opt {A} (b : bool) (p : list byte -> pres A) c v :
  (b = true -> stable p c v) ->
  stable (fun i => if b then pmap Some (p i) else POk None i)
         (if b then c else []) (if b then Some v else None).
Proof.
  intros H. destruct b.
  - apply (stable_pmap Some p), H. reflexivity.
  - apply stable_ret.
Qed.
