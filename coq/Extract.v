(* Extract.v — extraction of the executable model to OCaml.  ExtrOcamlBasic only
   (bool, option, unit, list, prod, sumbool mapped to OCaml's); no directive of our own:
   N, Z, positive, nat and byte stay the extracted inductive datatypes. *)
From DltV.Model Require Import Bytes Wire Run.
Require Extraction.
Require Import ExtrOcamlBasic.
Extraction Language OCaml.
Extraction "model.ml" run_case all_bytes b2n.
