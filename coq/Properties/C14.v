(* C14 — header-type, message-info and type-info codes decode and re-encode consistently. *)
From DltV.Model Require Import Bytes Dlt.
From DltV.Proofs Require Import Codes.
Open Scope N_scope.

(* all 256 header-type bytes: decode (as dlt_standard_header does) then re-encode gives the same byte,
   and every field is the bit the DLT layout prescribes *)
Theorem c14_htyp : forall b, b < 256 -> htyp_roundtrip b = true /\ htyp_layout b = true.
Proof. exact htyp_all. Qed.
Check c14_htyp : forall b, b < 256 -> htyp_roundtrip b = true /\ htyp_layout b = true.
Print Assumptions c14_htyp.

(* all 256 message-info bytes *)
Theorem c14_msin : forall b, b < 256 ->
  msin_encode (message_type_decode b) (msin_verbose b) = b /\
  msin_verbose b = N.testbit b 0 /\
  message_type_decode b = spec_mtype ((b / 2) mod 8) (b / 16).
Proof. exact msin_all. Qed.
Check c14_msin : forall b, b < 256 ->
  msin_encode (message_type_decode b) (msin_verbose b) = b /\
  msin_verbose b = N.testbit b 0 /\
  message_type_decode b = spec_mtype ((b / 2) mod 8) (b / 16).
Print Assumptions c14_msin.

(* every type-info word (no size bound at all, in particular all 2^32): decoding refuses exactly the
   words that do not name one supported kind with a supported width; otherwise the description
   re-encodes to a word that decodes to the same description and differs from the original only in
   bits the format leaves unused for that kind *)
Theorem c14_type_info : forall w, ti_ok w.
Proof. exact ti_all. Qed.
Check c14_type_info : forall w,
  match ti_decode w with
  | None => names_supported w = false
  | Some t =>
    names_supported w = true
    /\ ti_decode (ti_encode t) = Some t
    /\ (forall i, N.testbit (N.lxor (ti_encode t) w) i = true -> unused_bit (ti_kind_of t) i = true)
  end.
Print Assumptions c14_type_info.

(* decoding looks at the low 18 bits only — this is what makes the exhaustive correspondence over
   2^32 words reducible to a table of 2^18 entries *)
Theorem c14_ti_low : forall w, ti_decode w = ti_decode (w mod 2 ^ 18).
Proof. exact ti_decode_low. Qed.
Check c14_ti_low : forall w, ti_decode w = ti_decode (w mod 2 ^ 18).
Print Assumptions c14_ti_low.

(* the same in both byte orders up to byte reversal *)
Theorem c14_byte_orders : forall t bs,
  ti_bytes BE t = rev (ti_bytes LE t) /\ get_uint BE (rev bs) = get_uint LE bs.
Proof. intros t bs. split; [apply ti_bytes_rev | apply ti_word_rev]. Qed.
Check c14_byte_orders : forall t bs,
  ti_bytes BE t = rev (ti_bytes LE t) /\ get_uint BE (rev bs) = get_uint LE bs.
Print Assumptions c14_byte_orders.

Example c14_example_accept : ti_decode 0x00000823 = Some (mkTI (KSigned BL32) SAscii true false)
  /\ names_supported 0x00000823 = true.
Proof. split; reflexivity. Qed.
Example c14_example_refuse : ti_decode 0x00000130 = None /\ names_supported 0x00000130 = false.
Proof. split; reflexivity. Qed.
