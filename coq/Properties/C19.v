(* C19 — "Extracting a string field of declared size n from a buffer holding at least n bytes
   consumes exactly n bytes and returns the longest valid-UTF-8 prefix of the bytes that precede
   the first NUL among those n bytes (all n if there is none); with fewer than n bytes available
   it reports incomplete, any size hint being no larger than the shortfall."

   [zstring] (Model/Parse.v) is dlt_zero_terminated_string_intern.  [c19_enough] gives the result
   as  utf8_prefix (upto_nul (first n bytes)),  rest = input minus n bytes.  [c19_upto_nul] pins
   [upto_nul] ("the bytes that precede the first NUL, all if none") and [c19_utf8] pins
   [utf8_prefix] ("the longest valid-UTF-8 prefix") against the declarative [wf_utf8]
   (Unicode table 3-7) of Proofs/Utf8Lemmas.v. *)
From DltV.Model Require Import Bytes Utf8 Nom Parse.
From DltV.Proofs Require Import BytesBasics Utf8Lemmas ZString.
Open Scope N_scope.

Theorem c19_enough : forall size s, size <= len s ->
  zstring size s =
  POk (utf8_prefix (upto_nul (firstn (N.to_nat size) s))) (skipn (N.to_nat size) s).
Proof. exact zstring_enough. Qed.
Check c19_enough : forall size s, size <= len s ->
  zstring size s =
  POk (utf8_prefix (upto_nul (firstn (N.to_nat size) s))) (skipn (N.to_nat size) s).
Print Assumptions c19_enough.

Theorem c19_short : forall size s, len s < size ->
  exists n, zstring size s = PIncomplete (Some n) /\ 1 <= n <= size - len s.
Proof. exact zstring_short. Qed.
Check c19_short : forall size s, len s < size ->
  exists n, zstring size s = PIncomplete (Some n) /\ 1 <= n <= size - len s.
Print Assumptions c19_short.

(* [utf8_prefix l] is a prefix of [l], is well-formed UTF-8, and no well-formed prefix is longer *)
Theorem c19_utf8 : forall l,
  (exists r, l = utf8_prefix l ++ r) /\
  wf_utf8 (utf8_prefix l) /\
  (forall p r, l = p ++ r -> wf_utf8 p -> (length p <= length (utf8_prefix l))%nat).
Proof. exact utf8_prefix_spec. Qed.
Check c19_utf8 : forall l,
  (exists r, l = utf8_prefix l ++ r) /\
  wf_utf8 (utf8_prefix l) /\
  (forall p r, l = p ++ r -> wf_utf8 p -> (length p <= length (utf8_prefix l))%nat).
Print Assumptions c19_utf8.

(* [upto_nul l] is NUL-free and is followed in [l] by nothing or by a NUL *)
Theorem c19_upto_nul : forall l,
  no_nul (upto_nul l) = true /\
  exists r, l = upto_nul l ++ r /\ (r = [] \/ exists r', r = x00 :: r').
Proof. exact upto_nul_spec. Qed.
Check c19_upto_nul : forall l,
  no_nul (upto_nul l) = true /\
  exists r, l = upto_nul l ++ r /\ (r = [] \/ exists r', r = x00 :: r').
Print Assumptions c19_upto_nul.

(* the executable validity test used in the well-formedness specs is the declarative one *)
Theorem c19_valid_iff : forall l, valid_utf8 l = true <-> wf_utf8 l.
Proof. exact valid_utf8_iff. Qed.
Check c19_valid_iff : forall l, valid_utf8 l = true <-> wf_utf8 l.
Print Assumptions c19_valid_iff.

Theorem c19_no_panic : forall size s, zstring size s <> PPanic.
Proof. exact zstring_no_panic. Qed.
Check c19_no_panic : forall size s, zstring size s <> PPanic.
Print Assumptions c19_no_panic.

(* "consumes exactly n bytes" *)
Theorem c19_consumes : forall size s r rest, zstring size s = POk r rest ->
  len s = size + len rest /\ exists c, len c = size /\ s = c ++ rest.
Proof. exact zstring_consumes. Qed.
Check c19_consumes : forall size s r rest, zstring size s = POk r rest ->
  len s = size + len rest /\ exists c, len c = size /\ s = c ++ rest.
Print Assumptions c19_consumes.

(* the hint is exactly the shortfall when a NUL was seen, otherwise 1 *)
Theorem c19_short_exact : forall size s, len s < size ->
  zstring size s = PIncomplete (Some (if no_nul s then 1 else size - len s)).
Proof. exact zstring_short_exact. Qed.
Check c19_short_exact : forall size s, len s < size ->
  zstring size s = PIncomplete (Some (if no_nul s then 1 else size - len s)).
Print Assumptions c19_short_exact.

(* ---------- examples (by evaluation) ---------- *)

(* "aé" = 61 C3 A9: the size limit 2 cuts the two-byte sequence; all of the 2 bytes are consumed *)
Example c19_ex_cut_by_size :
  zstring 2 [x61; xc3; xa9; x62] = POk [x61] [xa9; x62] /\ 2 <= len [x61; xc3; xa9; x62].
Proof. split; vm_compute; [reflexivity|discriminate]. Qed.

(* "a€" = 61 E2 82 AC with a NUL in place of the last byte: the NUL cuts the three-byte sequence *)
Example c19_ex_cut_by_nul :
  zstring 5 [x61; xe2; x82; x00; x62; x63] = POk [x61] [x63].
Proof. vm_compute. reflexivity. Qed.

(* whole valid content, NUL padding, trailing bytes untouched *)
Example c19_ex_padded :
  zstring 5 [xe2; x82; xac; x00; x00; xff] = POk [xe2; x82; xac] [xff].
Proof. vm_compute. reflexivity. Qed.

(* no NUL among the n bytes: all n are the content; a NUL right after them is not looked at *)
Example c19_ex_no_nul :
  zstring 4 [x45; x43; x55; x31; x00] = POk [x45; x43; x55; x31] [x00].
Proof. vm_compute. reflexivity. Qed.

(* bytes after the first NUL are dropped even if more text follows inside the field *)
Example c19_ex_after_nul :
  zstring 4 [x41; x00; x42; x43; x44] = POk [x41] [x44].
Proof. vm_compute. reflexivity. Qed.

Example c19_ex_size0 : zstring 0 [x61] = POk [] [x61] /\ zstring 0 [] = POk [] [].
Proof. split; vm_compute; reflexivity. Qed.

(* too short: hint 1 without a NUL, the exact shortfall with one *)
Example c19_ex_short :
  zstring 4 [x61; x62] = PIncomplete (Some 1) /\
  zstring 4 [x61; x00] = PIncomplete (Some 2) /\
  zstring 4 [] = PIncomplete (Some 1) /\
  len [x61; x62] < 4.
Proof. repeat split; vm_compute; reflexivity. Qed.

(* utf8_prefix: maximal well-formed prefix; surrogates, overlong forms and > U+10FFFF rejected *)
Example c19_ex_prefix :
  utf8_prefix [x61; xc3; xa9; xff; x62] = [x61; xc3; xa9] /\
  utf8_prefix [xed; xa0; x80] = [] /\
  utf8_prefix [xc0; x80] = [] /\
  utf8_prefix [xe0; x9f; xbf] = [] /\
  utf8_prefix [xf4; x90; x80; x80] = [] /\
  utf8_prefix [xf0; x9f; x98; x80; xf0; x9f; x98] = [xf0; x9f; x98; x80] /\
  utf8_prefix [xed; x9f; xbf; xee; x80; x80; xf4; x8f; xbf; xbf] =
    [xed; x9f; xbf; xee; x80; x80; xf4; x8f; xbf; xbf].
Proof. repeat split; vm_compute; reflexivity. Qed.

(* the hypothesis [wf_utf8 p] of maximality is satisfiable by a non-trivial prefix *)
Example c19_ex_wf : wf_utf8 [x61; xc3; xa9] /\ ~ wf_utf8 [x61; xc3].
Proof.
  split.
  - apply valid_utf8_iff. vm_compute. reflexivity.
  - intros W. apply valid_utf8_iff in W. vm_compute in W. discriminate.
Qed.

(* round trip used by the message-level proofs *)
Example c19_ex_put :
  zstring (len [x41; x42] + N.of_nat 2) ([x41; x42] ++ repeat x00 2 ++ [x07]) = POk [x41; x42] [x07].
Proof. vm_compute. reflexivity. Qed.
