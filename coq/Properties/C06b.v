(* C06b — C06 (storage-header resync) composed with the round trip C01: junk in front of the serialised
   bytes of a well-formed message with storage header is skipped and the message itself comes back; a
   stream of such messages with pattern-free junk before, between and behind them is recovered completely
   and in order.  [messages_bytes [(j1,m1); ...; (jn,mn)] tail = j1 ++ message_bytes m1 ++ ... ++ jn ++
   message_bytes mn ++ tail] (Proofs/Resync.v). *)
From DltV.Model Require Import Bytes Nom Dlt Parse.
From DltV.Spec Require Import WellFormed FilterSpec.
From DltV.Proofs Require Import Search Resync Roundtrip Compose.
Open Scope N_scope.

Theorem c06b_junk_message : forall junk m rest f,
  wf_message m = true -> has_storage m = true -> (forall j, ~ pattern_at junk j) ->
  dlt_message (junk ++ message_bytes m ++ rest) f true = dlt_message (message_bytes m ++ rest) f true
  /\ dlt_message (message_bytes m ++ rest) None true = POk (Item m) rest.
Proof. exact junk_message. Qed.
Check c06b_junk_message : forall junk m rest f,
  wf_message m = true -> has_storage m = true -> (forall j, ~ pattern_at junk j) ->
  dlt_message (junk ++ message_bytes m ++ rest) f true = dlt_message (message_bytes m ++ rest) f true
  /\ dlt_message (message_bytes m ++ rest) None true = POk (Item m) rest.
Print Assumptions c06b_junk_message.

Theorem c06b_stream_recovered : forall l jn fuel,
  (forall j m, In (j, m) l ->
     (forall k, ~ pattern_at j k) /\ wf_message m = true /\ has_storage m = true) ->
  (forall k, ~ pattern_at jn k) -> (length l < fuel)%nat ->
  parse_all fuel (messages_bytes l jn) None true = (map (fun p => Item (snd p)) l, jn).
Proof. exact stream_messages_recovered. Qed.
Check c06b_stream_recovered : forall l jn fuel,
  (forall j m, In (j, m) l ->
     (forall k, ~ pattern_at j k) /\ wf_message m = true /\ has_storage m = true) ->
  (forall k, ~ pattern_at jn k) -> (length l < fuel)%nat ->
  parse_all fuel (messages_bytes l jn) None true = (map (fun p => Item (snd p)) l, jn).
Print Assumptions c06b_stream_recovered.

(* with a filter configuration (C09): each message is delivered or replaced by the marker as the drop rule
   [spec_dropped] says, the junk is skipped all the same *)
Theorem c06b_stream_filtered : forall cfg l jn fuel,
  (forall j m, In (j, m) l ->
     (forall k, ~ pattern_at j k) /\ wf_message m = true /\ has_storage m = true) ->
  (forall k, ~ pattern_at jn k) -> (length l < fuel)%nat ->
  parse_all fuel (messages_bytes l jn) (Some (process_filter cfg)) true
  = (map (fun p => if spec_dropped cfg (snd p) then FilteredOut (h_payload_length (m_header (snd p)))
                   else Item (snd p)) l, jn).
Proof. exact stream_messages_filtered. Qed.
Check c06b_stream_filtered : forall cfg l jn fuel,
  (forall j m, In (j, m) l ->
     (forall k, ~ pattern_at j k) /\ wf_message m = true /\ has_storage m = true) ->
  (forall k, ~ pattern_at jn k) -> (length l < fuel)%nat ->
  parse_all fuel (messages_bytes l jn) (Some (process_filter cfg)) true
  = (map (fun p => if spec_dropped cfg (snd p) then FilteredOut (h_payload_length (m_header (snd p)))
                   else Item (snd p)) l, jn).
Print Assumptions c06b_stream_filtered.

(* ---------- non-vacuity ---------- *)
(* a verbose log message (one u8 argument) with storage header, ECU id, extended header *)
Definition ex_u8 : argument := mkArg (mkTI (KUnsigned BL8) SAscii false false) None None None (VU8 200).
Definition ex_m1 : message :=
  mkMsg (Some (mkSH (mkTS 1700000000 999999) [x45; x43; x55]))
        (mkStd 1 BE true 7 (Some [x45; x31]) None (Some 123456) 5)
        (Some (mkExt true 1 (MLog Warn) [x41; x50; x50] [x43; x54; x58]))
        (PVerbose [ex_u8]).
(* Resync.ex_msg: storage header, no extended header, non-verbose *)
Definition ex_m2 : message := Resync.ex_msg.

Example c06b_ex_hyps :
  wf_message ex_m1 = true /\ has_storage ex_m1 = true /\ wf_message ex_m2 = true /\ has_storage ex_m2 = true
  /\ (forall j, ~ pattern_at [xff; x44; x4c; x54] j).
Proof. repeat split; try (vm_compute; reflexivity). apply no_pattern; reflexivity. Qed.

Example c06b_ex_junk_message :
  dlt_message ([xff; x44; x4c; x54] ++ message_bytes ex_m1 ++ [xee]) None true = POk (Item ex_m1) [xee].
Proof. vm_compute. reflexivity. Qed.

(* the hypotheses of c06b_stream_recovered for a two-message stream, and the recovered stream by evaluation *)
Example c06b_ex_stream :
  let l := [([x00; x44; x4c; x54], ex_m1); ([x44; x4c], ex_m2)] in
  (forall j m, In (j, m) l ->
     (forall k, ~ pattern_at j k) /\ wf_message m = true /\ has_storage m = true)
  /\ (forall k, ~ pattern_at [x44; x4c; x54] k)
  /\ parse_all 3 (messages_bytes l [x44; x4c; x54]) None true = ([Item ex_m1; Item ex_m2], [x44; x4c; x54])
  /\ parse_all 3 (messages_bytes l [x44; x4c; x54]) (Some (process_filter (mkFC (Some 2) None None None 0 0))) true
     = ([FilteredOut 5; Item ex_m2], [x44; x4c; x54]).
Proof.
  cbv zeta. split; [|split; [|split]].
  - intros j m [H|[H|[]]]; injection H as <- <-;
      (split; [apply no_pattern; reflexivity|]; split; vm_compute; reflexivity).
  - apply no_pattern; reflexivity.
  - vm_compute. reflexivity.
  - vm_compute. reflexivity.
Qed.
