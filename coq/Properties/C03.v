(* C03 — "No byte sequence can crash the slice parsers or the use of what they return."

   [PPanic] is the model's outcome for a Rust panic (checked subtraction, slice range) in
   Model/Parse.v; [forward_to_next_storage_header] and [construct_arguments] return [option]
   (value or error) — their model types have no panic outcome, every slice they take being
   guarded by an explicit length check written out in the model.
   The serialiser (Model/Dlt.v) computes the release-build result; its debug-build overflow panics
   are the boolean predicates [message_bytes_overflows] (u16 header-length sum, and every
   `len as u16 + 1` of every argument) and [arg_bytes_overflows]; [arg_valid] is Argument::valid.

   [args_of m]    = the argument list of a verbose payload ([] for the other payload kinds),
   [slices_of m]  = the slices of a network-trace payload ([] otherwise),
   [arg_texts a]  = name, unit and string/raw value of [a] (those that are present),
   [texts_within a n] = every text of [a] has  len + 6 <= n,
   [splits i rest n]  = i is n bytes followed by rest. *)
From DltV.Model Require Import Bytes RustInt Utf8 Nom Dlt Parse.
From DltV.Proofs Require Import ParseLemmas Usable.
Open Scope N_scope.

(* ---- every slice-level entry point returns a value or an error ---- *)
Theorem c03_parsers_total : forall bs f sh size,
  dlt_message bs f sh <> PPanic /\ dlt_consume_msg bs <> PPanic /\
  skip_storage_header bs <> PPanic /\ zstring size bs <> PPanic.
Proof. exact parsers_total. Qed.
Check c03_parsers_total : forall bs f sh size,
  dlt_message bs f sh <> PPanic /\ dlt_consume_msg bs <> PPanic /\
  skip_storage_header bs <> PPanic /\ zstring size bs <> PPanic.
Print Assumptions c03_parsers_total.

(* ---- every returned message can be re-serialised, and its arguments are valid ---- *)
Theorem c03_results_usable : forall bs f sh m rest,
  dlt_message bs f sh = POk (Item m) rest ->
  message_bytes_overflows m = false /\
  (forall a, In a (args_of m) -> arg_valid a = true /\ arg_bytes_overflows a = false).
Proof. exact results_usable. Qed.
Check c03_results_usable : forall bs f sh m rest,
  dlt_message bs f sh = POk (Item m) rest ->
  message_bytes_overflows m = false /\
  (forall a, In a (args_of m) -> arg_valid a = true /\ arg_bytes_overflows a = false).
Print Assumptions c03_results_usable.

(* ---- the bound behind it: byte_len does not overflow, the payload has at most 65531 bytes,
   every text of every argument and every network-trace slice has at most 65515 bytes (so
   `len as u16` is exact and `+ 1` cannot overflow), and Argument::len is below 2^18 ---- *)
Theorem c03_result_bounds : forall bs f sh m rest,
  dlt_message bs f sh = POk (Item m) rest ->
  overall_length_overflows (m_header m) = false /\
  h_payload_length (m_header m) <= 65531 /\
  (forall a, In a (args_of m) ->
     arg_valid a = true /\ (forall s, In s (arg_texts a) -> len s <= 65515) /\ arg_len a < 2 ^ 18) /\
  (forall s, In s (slices_of m) -> len s <= 65515).
Proof. exact dlt_message_item_bounds. Qed.
Check c03_result_bounds : forall bs f sh m rest,
  dlt_message bs f sh = POk (Item m) rest ->
  overall_length_overflows (m_header m) = false /\
  h_payload_length (m_header m) <= 65531 /\
  (forall a, In a (args_of m) ->
     arg_valid a = true /\ (forall s, In s (arg_texts a) -> len s <= 65515) /\ arg_len a < 2 ^ 18) /\
  (forall s, In s (slices_of m) -> len s <= 65515).
Print Assumptions c03_result_bounds.

(* ---- reusable: the texts of a parsed argument lie inside the bytes it consumed ---- *)
Theorem c03_parsed_arg_bounds : forall e i a rest n,
  dlt_argument e i = POk a rest -> splits i rest n ->
  texts_within a n /\ arg_valid a = true.
Proof. exact parsed_arg_bounds. Qed.
Check c03_parsed_arg_bounds : forall e i a rest n,
  dlt_argument e i = POk a rest -> splits i rest n ->
  texts_within a n /\ arg_valid a = true.
Print Assumptions c03_parsed_arg_bounds.

(* ---- non-verbose argument construction: the arguments are valid, their texts are slices of
   [data] with a u16 length, and they re-serialise without overflow whenever [data] has at most
   65536 bytes (the payload of a parsed message has at most 65531) ---- *)
Theorem c03_construct_arguments_usable : forall e tys data args,
  construct_arguments e tys data = Some args ->
  forall a, In a args ->
    arg_valid a = true /\
    (forall s, In s (arg_texts a) -> len s + 2 <= len data /\ len s <= 65535) /\
    (len data <= 65536 -> arg_bytes_overflows a = false).
Proof. exact construct_arguments_usable. Qed.
Check c03_construct_arguments_usable : forall e tys data args,
  construct_arguments e tys data = Some args ->
  forall a, In a args ->
    arg_valid a = true /\
    (forall s, In s (arg_texts a) -> len s + 2 <= len data /\ len s <= 65535) /\
    (len data <= 65536 -> arg_bytes_overflows a = false).
Print Assumptions c03_construct_arguments_usable.

(* ================= examples ================= *)

(* A hostile verbose message without storage header: one string argument with variable info whose
   name (size 3) is  'n' FF 'x'  and whose value (size 5) is  'a' 'b' C3 'd' 'e'  — no NUL
   terminator in either, invalid UTF-8 in both.  It parses; the texts are the salvaged prefixes. *)
Definition hostile1 : list byte :=
  [x21; x00; x00; x1e;  x41; x01; x41; x00; x00; x00; x43; x00; x00; x00;
   x00; x8a; x00; x00;  x05; x00;  x03; x00;  x6e; xff; x78;  x61; x62; xc3; x64; x65;  xee].
Example c03_example_hostile :
  exists m, dlt_message hostile1 None false = POk (Item m) [xee] /\
    map arg_texts (args_of m) = [[[x6e]; [x61; x62]]] /\
    message_bytes_overflows m = false /\ forallb arg_valid (args_of m) = true.
Proof. eexists. vm_compute. repeat split. Qed.

(* The same message with the string size field set to 0xFFFF: an error, not a panic and not a
   65535-byte string. *)
Example c03_example_oversized_size_field :
  dlt_message
    [x21; x00; x00; x1e;  x41; x01; x41; x00; x00; x00; x43; x00; x00; x00;
     x00; x8a; x00; x00;  xff; xff;  x03; x00;  x6e; xff; x78;  x61; x62; xc3; x64; x65;  xee]
    None false = PError.
Proof. vm_compute. reflexivity. Qed.

(* With storage header (one garbage byte in front of it), a filter present, network-trace
   message type: the raw argument becomes a slice. *)
Definition hostile2 : list byte :=
  [x00; x44; x4c; x54; x01; x01; x02; x03; x04; x05; x06; x07; x08; x45; x43; x55; x00;
   x21; x00; x00; x16;  x15; x01; x41; x00; x00; x00; x43; x00; x00; x00;
   x00; x04; x00; x00;  x02; x00;  xaa; xbb;  xee].
Example c03_example_storage_filter_nwtrace :
  exists m, dlt_message hostile2 (Some (mkPF (Some Verbose) None None None 0 0)) true = POk (Item m) [xee] /\
    slices_of m = [[xaa; xbb]] /\ message_bytes_overflows m = false.
Proof. eexists. vm_compute. repeat split. Qed.

(* The bound 65515 is attained: LEN = 0xFFFF, extended header, one string argument of size
   65515 without NUL.  (The check is a boolean so that vm_compute decides it.) *)
Definition longest : list byte :=
  [x21; x00; xff; xff;  x41; x01; x41; x00; x00; x00; x43; x00; x00; x00;
   x00; x02; x00; x00;  xeb; xff] ++ repeat x41 (N.to_nat 65515).
Example c03_example_bound_attained :
  match dlt_message longest None false with
  | POk (Item m) [] =>
    match args_of m with
    | [a] => match a_value a with VString s => len s =? 65515 | _ => false end
             && negb (arg_bytes_overflows a) && negb (message_bytes_overflows m)
    | _ => false
    end
  | _ => false
  end = true.
Proof. vm_compute. reflexivity. Qed.

(* construct_arguments on at most 64 KiB: hypotheses of c03_construct_arguments_usable hold *)
Example c03_example_construct :
  exists args, construct_arguments BE [mkTI KString SUtf8 false false; mkTI KBool SAscii false false]
                 [x00; x02; x68; x69; x01] = Some args /\
    map arg_texts args = [[[x68; x69]]; []] /\ forallb arg_valid args = true.
Proof. eexists. vm_compute. repeat split. Qed.

(* ... and the side condition [len data <= 65536] of c03_construct_arguments_usable cannot be
   dropped: called directly (public API) on 65537 bytes, a string of declared length 0xFFFF yields
   an argument whose `len as u16 + 1` overflows when it is serialised in a debug build.  No
   message returned by dlt_message has such a payload (c03_result_bounds). *)
Example c03_construct_arguments_long_data_overflows :
  option_map (map arg_bytes_overflows)
    (construct_arguments BE [mkTI KString SUtf8 false false] ([xff; xff] ++ repeat x41 (N.to_nat 65535)))
  = Some [true].
Proof. vm_compute. reflexivity. Qed.
