(* C08b — the async reader built with a caller-chosen scratch length,
     DltStreamReader::with_capacity(buffer_capacity, message_max_len, source, with_storage_header),
   `buffer: vec![0u8; message_max_len]` (stream.rs).

   What this adds to C08: C08 (c08_schedule, c08_spec) is about the DEFAULT scratch of 16 + 65535 bytes.
   Here the scratch length mml is arbitrary: for every mml, BufReader capacity and poll schedule the async
   reader delivers spec_run_mml (c08b_run) — hence exactly what the blocking reader with the same mml
   delivers (c08b_schedule); spec_run if every need fits (c08b_fits, c08b_fits_cuts; side condition and
   its reading in words: C07b.c07b_fits_iff); the default is an instance (c08b_default_instance, c08b_default_corollary); misuse ends in
   OPanic at the first record that does not fit (c08b_over, c08b_too_long, c08b_no_header).
   Model: Model/ReaderMml.v over Model/Stream.v (the REPAIRED stream.rs).  Spec: Spec/ReaderMmlSpec.v. *)
From DltV.Model Require Import Bytes Nom Dlt Parse Reader Stream ReaderMml.
From DltV.Model Require Run.
From DltV.Spec Require Import ReaderSpec ReaderMmlSpec.
From DltV.Proofs Require Import ReaderMml.
Open Scope N_scope.

Theorem c08b_run : forall mml cap pi s f sh,
  async_run_mml mml cap pi s f sh = (spec_run_mml mml s f sh, true).
Proof. exact async_run_mml_spec. Qed.
Check c08b_run : forall mml cap pi s f sh,
  async_run_mml mml cap pi s f sh = (spec_run_mml mml s f sh, true).
Print Assumptions c08b_run.

(* any poll schedule and capacity against any blocking schedule and capacity, fitting or not *)
Theorem c08b_schedule : forall mml cap cap' pi sigma s f sh,
  async_run_mml mml cap pi s f sh = reader_run_mml mml cap' sigma s f sh.
Proof. exact async_mml_eq_blocking. Qed.
Check c08b_schedule : forall mml cap cap' pi sigma s f sh,
  async_run_mml mml cap pi s f sh = reader_run_mml mml cap' sigma s f sh.
Print Assumptions c08b_schedule.

(* ---------- 1. FITS ---------- *)
Theorem c08b_fits : forall mml cap pi s f sh,
  fits_mml mml s sh = true ->
  async_run_mml mml cap pi s f sh = (spec_run s f sh, true).
Proof. exact async_run_mml_fits. Qed.
Check c08b_fits : forall mml cap pi s f sh,
  fits_mml mml s sh = true ->
  async_run_mml mml cap pi s f sh = (spec_run s f sh, true).
Print Assumptions c08b_fits.

Theorem c08b_fits_cuts : forall mml cap pi s f sh,
  hdr_len sh <= mml ->
  Forall (fun c => snd c <= mml) (spec_cuts s sh) ->
  (forall t, trailing_total s sh = Some t -> t <= mml) ->
  async_run_mml mml cap pi s f sh = (spec_run s f sh, true).
Proof. exact async_run_mml_fits_cuts. Qed.
Check c08b_fits_cuts : forall mml cap pi s f sh,
  hdr_len sh <= mml ->
  Forall (fun c => snd c <= mml) (spec_cuts s sh) ->
  (forall t, trailing_total s sh = Some t -> t <= mml) ->
  async_run_mml mml cap pi s f sh = (spec_run s f sh, true).
Print Assumptions c08b_fits_cuts.

(* ---------- 2. THE DEFAULT IS AN INSTANCE ---------- *)
Theorem c08b_default_instance : forall cap pi s f sh,
  async_run_mml message_max_len cap pi s f sh = async_run_cap cap pi s f sh.
Proof. exact async_run_mml_default. Qed.
Check c08b_default_instance : forall cap pi s f sh,
  async_run_mml message_max_len cap pi s f sh = async_run_cap cap pi s f sh.
Print Assumptions c08b_default_instance.

(* C08.c08_spec, proved again from c08b_fits and C07b.c07b_default_fits *)
Theorem c08b_default_corollary : forall cap pi s f sh,
  async_run_cap cap pi s f sh = (spec_run s f sh, true).
Proof. exact async_run_cap_spec_again. Qed.
Check c08b_default_corollary : forall cap pi s f sh,
  async_run_cap cap pi s f sh = (spec_run s f sh, true).
Print Assumptions c08b_default_corollary.

(* ---------- 3. TOO LONG ---------- *)
Theorem c08b_over : forall mml cap pi s f sh i,
  first_over mml (spec_needs s sh) = Some i ->
  async_run_mml mml cap pi s f sh = (until_panic (firstn i (spec_run s f sh) ++ [OPanic]), true).
Proof. exact async_run_mml_over. Qed.
Check c08b_over : forall mml cap pi s f sh i,
  first_over mml (spec_needs s sh) = Some i ->
  async_run_mml mml cap pi s f sh = (until_panic (firstn i (spec_run s f sh) ++ [OPanic]), true).
Print Assumptions c08b_over.

Theorem c08b_too_long : forall mml cap pi s f sh i,
  first_over mml (spec_needs s sh) = Some i ->
  ~ In OPanic (firstn i (spec_run s f sh)) ->
  async_run_mml mml cap pi s f sh = (firstn i (spec_run s f sh) ++ [OPanic], true).
Proof. exact async_run_mml_too_long. Qed.
Check c08b_too_long : forall mml cap pi s f sh i,
  first_over mml (spec_needs s sh) = Some i ->
  ~ In OPanic (firstn i (spec_run s f sh)) ->
  async_run_mml mml cap pi s f sh = (firstn i (spec_run s f sh) ++ [OPanic], true).
Print Assumptions c08b_too_long.

Theorem c08b_no_header : forall mml cap pi s f sh,
  mml < hdr_len sh -> async_run_mml mml cap pi s f sh = ([OPanic], true).
Proof. exact async_run_mml_no_header. Qed.
Check c08b_no_header : forall mml cap pi s f sh,
  mml < hdr_len sh -> async_run_mml mml cap pi s f sh = ([OPanic], true).
Print Assumptions c08b_no_header.

(* ---------- 4. THE TIE TO THE DIFFERENTIAL TEST: the run inside Run.op_async ---------- *)
Theorem c08b_op_async : forall c mml pi s f sh, mml <> 0 ->
  run_with (abr_read_exact (Run.cap_mml c mml)) true (length s + 1) f sh (Run.reader_of mml pi s)
  = async_run_mml mml (Run.cap_mml c mml) pi s f sh.
Proof. exact run_op_async_mml. Qed.
Check c08b_op_async : forall c mml pi s f sh, mml <> 0 ->
  run_with (abr_read_exact (Run.cap_mml c mml)) true (length s + 1) f sh (Run.reader_of mml pi s)
  = async_run_mml mml (Run.cap_mml c mml) pi s f sh.
Print Assumptions c08b_op_async.

(* ---------- examples ---------- *)
(* ex_m1, ex_m2, ex_sh, kinds: Spec/ReaderSpec.v; 0 = message, 2 = ParsingHickup, 3 = Unrecoverable, 4 = panic *)

(* pending polls between small chunks, BufReader capacity 3; mml = the longest total / one less *)
Example c08b_example_fits_and_over :
  let s := ex_m1 ++ [x00; x00; x00; x02] ++ ex_m2 in
  let pi := [0; 1; 0; 0; 2; 0; 5; 1; 0] in
  fits_mml 10 s false = true
  /\ kinds (async_run_mml 10 3 pi s None false) = ([0; 2; 0], true)
  /\ async_run_mml 10 3 pi s None false = async_run_default [] s None false
  /\ first_over 9 (spec_needs s false) = Some 2%nat
  /\ ~ In OPanic (firstn 2 (spec_run s None false))
  /\ kinds (async_run_mml 9 3 pi s None false) = ([0; 2; 4], true)
  /\ kinds (async_run_mml 3 3 pi s None false) = ([4], true).
Proof.
  vm_compute. repeat split; try reflexivity. intros [H|[H|[]]]; discriminate.
Qed.

Example c08b_example_trailing_and_storage_header :
  kinds (async_run_mml 10 3 [0; 4; 0; 1] (ex_m1 ++ firstn 7 ex_m2) None false) = ([0; 3], true)
  /\ kinds (async_run_mml 9 3 [0; 4; 0; 1] (ex_m1 ++ firstn 7 ex_m2) None false) = ([0; 4], true)
  /\ kinds (async_run_mml 26 3 [0; 1; 0; 0; 2; 30] (ex_sh ++ ex_m1 ++ ex_sh ++ ex_m2) None true) = ([0; 0], true)
  /\ kinds (async_run_mml 25 3 [0; 1; 0; 0; 2; 30] (ex_sh ++ ex_m1 ++ ex_sh ++ ex_m2) None true) = ([0; 4], true)
  /\ kinds (async_run_mml 19 3 [0; 1; 0] [] None true) = ([4], true).
Proof. vm_compute. repeat split; reflexivity. Qed.
