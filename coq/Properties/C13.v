(* C13 — "Given the signal types of a non-verbose message (bool, signed and unsigned integers of
   8 to 128 bits, 32/64-bit floats, strings, raw data) and its payload bytes in a stated byte
   order, the constructed arguments are one per type, in order, each carrying its type and the
   value decoded from the next field of the payload (strings and raw data preceded by a 16-bit
   length), ignoring trailing bytes.  If the payload is too short for the listed types or a string
   is not valid UTF-8 an error is returned, and no input causes a panic."

   [construct_arguments] (Model/Parse.v) is the model of parse.rs:1022-1227 (None = Err).
   [spec_construct] (Spec/NonVerbose.v, part 1) is the field-by-field decoder: cut the next field
   off the front of the remaining bytes — 1 byte bool; 1/2/4/8/16-byte unsigned or two's-complement
   integer in the stated byte order (for one byte the order is immaterial, the implementation
   reads be_u8/be_i8); 4/8-byte float kept as its bit pattern; u16 length + bytes for string
   (must be valid UTF-8) and raw.  [c13_refines] says the implementation computes exactly that
   function; the other theorems are consequences that can be read without the decoder:
     [args_bytes bo args]  the packed encoding of the values of args (Spec/NonVerbose.v, part 2),
     [args_size args]      its length,
     [plain_argument a]    no name, no unit, no fixed point, value of the variant and range that
                           the kind of a's type announces (strings valid UTF-8, < 65536 bytes). *)
From DltV.Model Require Import Bytes RustInt Utf8 Nom Dlt Parse.
From DltV.Spec Require Import NonVerbose.
From DltV.Proofs Require Import NonVerboseProofs.
Open Scope N_scope.

Theorem c13_refines : forall bo tys data,
  construct_arguments bo tys data = spec_construct bo tys data.
Proof. exact construct_refines. Qed.
Check c13_refines : forall bo tys data,
  construct_arguments bo tys data = spec_construct bo tys data.
Print Assumptions c13_refines.

(* exact characterisation of success: the payload starts with the packed encoding of the result,
   the result carries the requested types in order and consists of plain arguments *)
Theorem c13_characterised : forall bo tys d args,
  construct_arguments bo tys d = Some args <->
  (exists rest, d = args_bytes bo args ++ rest) /\ map a_ti args = tys /\ Forall plain_argument args.
Proof. exact construct_characterised. Qed.
Check c13_characterised : forall bo tys d args,
  construct_arguments bo tys d = Some args <->
  (exists rest, d = args_bytes bo args ++ rest) /\ map a_ti args = tys /\ Forall plain_argument args.
Print Assumptions c13_characterised.

(* one argument per type, in order, carrying that type, no name/unit/fixed point, value of the
   announced kind *)
Theorem c13_shape : forall bo tys d args,
  construct_arguments bo tys d = Some args ->
  length args = length tys /\ map a_ti args = tys /\ Forall plain_argument args.
Proof. exact construct_shape. Qed.
Check c13_shape : forall bo tys d args,
  construct_arguments bo tys d = Some args ->
  length args = length tys /\ map a_ti args = tys /\ Forall plain_argument args.
Print Assumptions c13_shape.

(* trailing bytes are ignored *)
Theorem c13_trailing : forall bo tys d args,
  construct_arguments bo tys d = Some args ->
  forall extra, construct_arguments bo tys (d ++ extra) = Some args.
Proof. exact construct_trailing. Qed.
Check c13_trailing : forall bo tys d args,
  construct_arguments bo tys d = Some args ->
  forall extra, construct_arguments bo tys (d ++ extra) = Some args.
Print Assumptions c13_trailing.

(* the bytes consumed are exactly the first [args_size args] bytes of the payload: they are the
   packed encoding of the result and suffice to construct it *)
Theorem c13_consumed : forall bo tys d args,
  construct_arguments bo tys d = Some args ->
  args_size args <= len d /\
  firstn (N.to_nat (args_size args)) d = args_bytes bo args /\
  construct_arguments bo tys (firstn (N.to_nat (args_size args)) d) = Some args.
Proof. exact construct_consumed. Qed.
Check c13_consumed : forall bo tys d args,
  construct_arguments bo tys d = Some args ->
  args_size args <= len d /\
  firstn (N.to_nat (args_size args)) d = args_bytes bo args /\
  construct_arguments bo tys (firstn (N.to_nat (args_size args)) d) = Some args.
Print Assumptions c13_consumed.

(* too short at every position: cutting the payload anywhere inside the consumed bytes is an error *)
Theorem c13_short : forall bo tys d args,
  construct_arguments bo tys d = Some args ->
  forall k, k < args_size args -> construct_arguments bo tys (firstn (N.to_nat k) d) = None.
Proof. exact construct_short. Qed.
Check c13_short : forall bo tys d args,
  construct_arguments bo tys d = Some args ->
  forall k, k < args_size args -> construct_arguments bo tys (firstn (N.to_nat k) d) = None.
Print Assumptions c13_short.

(* types tys1 decode d1 completely; behind it comes a string field (declared length = length of
   s) whose content is not valid UTF-8: Err, whatever types and bytes follow *)
Theorem c13_utf8 : forall bo tys1 t tys2 d1 args1 s rest,
  construct_arguments bo tys1 d1 = Some args1 -> args_size args1 = len d1 ->
  ti_kind_of t = KString -> len s < 65536 -> valid_utf8 s = false ->
  construct_arguments bo (tys1 ++ t :: tys2) (d1 ++ put_uint bo 2 (len s) ++ s ++ rest) = None.
Proof. exact construct_invalid_utf8. Qed.
Check c13_utf8 : forall bo tys1 t tys2 d1 args1 s rest,
  construct_arguments bo tys1 d1 = Some args1 -> args_size args1 = len d1 ->
  ti_kind_of t = KString -> len s < 65536 -> valid_utf8 s = false ->
  construct_arguments bo (tys1 ++ t :: tys2) (d1 ++ put_uint bo 2 (len s) ++ s ++ rest) = None.
Print Assumptions c13_utf8.

(* Fixed-point signal types are outside the supported list of the property — and the code refuses
   them on every payload: it hands dlt_fixed_point a slice of 4 resp. 8 bytes, which needs 8 resp.
   12 (parse.rs:1114-1126, 1170-1182). *)
Theorem c13_fixed_point_refused : forall bo tys d t,
  In t tys -> is_fixed_point (ti_kind_of t) = true -> construct_arguments bo tys d = None.
Proof. exact construct_fixed_point_refused. Qed.
Check c13_fixed_point_refused : forall bo tys d t,
  In t tys -> is_fixed_point (ti_kind_of t) = true -> construct_arguments bo tys d = None.
Print Assumptions c13_fixed_point_refused.

(* No panic.  [construct_checked bits] (Spec/NonVerbose.v, part 3) is the transcription of the
   Rust function in which every `&data[a..b]`, `&data[a..]`, `data[i]`, `offset - 1` and every
   usize addition carries its run-time check and yields Panic when the check fails, for a
   [bits]-bit usize.  For every payload that can exist (a slice has at most isize::MAX = 2^(bits-1)-1
   bytes, so len + 65537 <= 2^bits for bits >= 18) it never yields Panic and returns what the
   model returns. *)
Theorem c13_no_panic : forall bits bo tys data,
  len data + 65537 <= 2 ^ bits ->
  construct_checked bits bo tys data = Val (construct_arguments bo tys data).
Proof. exact construct_no_panic. Qed.
Check c13_no_panic : forall bits bo tys data,
  len data + 65537 <= 2 ^ bits ->
  construct_checked bits bo tys data = Val (construct_arguments bo tys data).
Print Assumptions c13_no_panic.

(* the fact behind it: a successful step moves the offset forward by the size of its field and
   never beyond the end of the data (so every later slice/index starts inside the data), and it
   never produces a fixed point *)
Theorem c13_offsets : forall bo t data off v fp off',
  off <= len data -> construct_one bo t data off = Some (v, fp, off') ->
  off < off' <= len data /\ off' = off + field_size v /\ fp = None.
Proof. exact construct_one_offset. Qed.
Check c13_offsets : forall bo t data off v fp off',
  off <= len data -> construct_one bo t data off = Some (v, fp, off') ->
  off < off' <= len data /\ off' = off + field_size v /\ fp = None.
Print Assumptions c13_offsets.

(* ---------- examples (by evaluation) ---------- *)
Definition ex_ti (k : ti_kind) : type_info := mkTI k SUtf8 false false.
Definition ex_tys : list type_info :=
  [ex_ti KBool; ex_ti (KUnsigned BL16); ex_ti (KSigned BL8); ex_ti KString; ex_ti (KFloat W32);
   ex_ti KRaw; ex_ti (KSigned BL32)].
(* bool 01 | u16 1234 | i8 ff | string len 2 "AB" | f32 3f800000 | raw len 1 aa | i32 fffffffe *)
Definition ex_payload : list byte :=
  [x01; x12; x34; xff; x00; x02; x41; x42; x3f; x80; x00; x00; x00; x01; xaa; xff; xff; xff; xfe].
Definition ex_values : list value :=
  [VBool 1; VU16 4660; VI8 (-1); VString [x41; x42]; VF32 1065353216; VRaw [xaa]; VI32 (-2)].

Example c13_example_decode :
  option_map (map a_value) (construct_arguments BE ex_tys ex_payload) = Some ex_values.
Proof. vm_compute. reflexivity. Qed.

(* the hypotheses of c13_shape/c13_trailing/c13_short/c13_consumed hold for it, all 19 bytes are used *)
Example c13_example_size :
  match construct_arguments BE ex_tys ex_payload with
  | Some args => args_size args = 19 /\ args_bytes BE args = ex_payload
  | None => False
  end.
Proof. vm_compute. split; reflexivity. Qed.

(* ... and the conclusions can be observed: every truncation fails, trailing bytes are ignored *)
Example c13_example_short :
  forallb (fun k => match construct_arguments BE ex_tys (firstn k ex_payload) with None => true | _ => false end)
          (seq 0 19) = true.
Proof. vm_compute. reflexivity. Qed.
Example c13_example_trailing :
  construct_arguments BE ex_tys (ex_payload ++ [x99; x98]) = construct_arguments BE ex_tys ex_payload.
Proof. vm_compute. reflexivity. Qed.

(* little endian: same field boundaries, multi-byte fields read the other way round; the 8-bit
   signed field is the same number *)
Example c13_example_le :
  option_map (map a_value)
    (construct_arguments LE [ex_ti (KUnsigned BL16); ex_ti (KSigned BL8); ex_ti KRaw]
                         [x34; x12; xff; x01; x00; xaa]) =
  Some [VU16 4660; VI8 (-1); VRaw [xaa]].
Proof. vm_compute. reflexivity. Qed.

(* c13_utf8: after a bool and a u16 that use up [01 12 34], a string of declared length 2 with
   bytes c3 28 (invalid) *)
Example c13_example_utf8 :
  let tys1 := [ex_ti KBool; ex_ti (KUnsigned BL16)] in
  let d1 := [x01; x12; x34] in
  let s := [xc3; x28] in
  match construct_arguments BE tys1 d1 with Some args1 => args_size args1 = len d1 | None => False end /\
  len s < 65536 /\ valid_utf8 s = false /\
  construct_arguments BE (tys1 ++ ex_ti KString :: [ex_ti KBool]) (d1 ++ put_uint BE 2 (len s) ++ s ++ [x01]) = None.
Proof. vm_compute. repeat split. Qed.

(* fixed point: refused even with plenty of data *)
Example c13_example_fixed_point :
  construct_arguments BE [ex_ti (KSignedFixed W32)] (repeat x00 64) = None /\
  construct_arguments LE [ex_ti KBool; ex_ti (KUnsignedFixed W64)] (repeat x00 64) = None.
Proof. vm_compute. split; reflexivity. Qed.

(* the instrumented transcription on the example, 64-bit and 32-bit usize *)
Example c13_example_checked :
  construct_checked 64 BE ex_tys ex_payload = Val (construct_arguments BE ex_tys ex_payload) /\
  construct_checked 32 LE ex_tys (firstn 7 ex_payload) = Val None.
Proof. vm_compute. split; reflexivity. Qed.
(* the checks are not vacuous: a slice beyond the data does panic *)
Example c13_example_check_fires : cslice ex_payload 18 20 = Panic /\ cindex ex_payload 19 = Panic.
Proof. vm_compute. split; reflexivity. Qed.

(* a plain argument, and the decoder recovering it from its packed bytes (c13_characterised, <-) *)
Example c13_example_plain :
  let a := mkArg (ex_ti (KSigned BL16)) None None None (VI16 (-300)) in
  plain_argument a /\ args_bytes LE [a] = [xd4; xfe] /\
  construct_arguments LE [ex_ti (KSigned BL16)] [xd4; xfe; x00] = Some [a].
Proof. vm_compute. repeat split. Qed.
