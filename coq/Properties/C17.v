(* C17 — timestamps built from milliseconds or microseconds denote the same instant. *)
From DltV.Model Require Import Bytes RustInt Dlt.
From DltV.Proofs Require Import TimeStamp.
Open Scope N_scope.

Theorem c17_ms : forall ms, ms / 1000 < 2 ^ 32 ->
  exists t, from_ms ms = Val t /\ ts_secs t * 1000000 + ts_micros t = ms * 1000 /\ ts_micros t < 1000000.
Proof. exact from_ms_spec. Qed.
Check c17_ms : forall ms, ms / 1000 < 2 ^ 32 ->
  exists t, from_ms ms = Val t /\ ts_secs t * 1000000 + ts_micros t = ms * 1000 /\ ts_micros t < 1000000.
Print Assumptions c17_ms.

Theorem c17_us : forall us, us / 1000000 < 2 ^ 32 ->
  exists t, from_us us = Val t /\ ts_secs t * 1000000 + ts_micros t = us /\ ts_micros t < 1000000.
Proof. exact from_us_spec. Qed.
Check c17_us : forall us, us / 1000000 < 2 ^ 32 ->
  exists t, from_us us = Val t /\ ts_secs t * 1000000 + ts_micros t = us /\ ts_micros t < 1000000.
Print Assumptions c17_us.

(* the hypotheses are satisfiable by non-trivial inputs, and the guard is sharp *)
Example c17_us_example : from_us 1500000 = Val (mkTS 1 500000) /\ 1500000 / 1000000 < 2 ^ 32.
Proof. split; reflexivity. Qed.
Example c17_ms_example : from_ms 4294967295999 = Val (mkTS 4294967295 999000) /\ 4294967295999 / 1000 < 2 ^ 32.
Proof. split; reflexivity. Qed.
