(* C15 — "The length an argument reports equals the number of bytes it serialises to in either
   byte order.  A message built by the message constructor from any configuration that fits the
   16-bit length field records a payload length equal to its serialised payload, reports a byte
   length equal to its serialisation without storage header, sets the verbose flag and argument
   count that its payload kind requires, and parses back to an equal message; adding a storage
   header only prepends 16 bytes carrying the given time and the header ECU id (or the default
   id).  An argument typed bool or 32/64-bit float that carries a value of another kind fails the
   validity check."

   [arg_len]/[arg_bytes]/[arg_valid] = Argument::len/as_bytes/valid, [message_new] = Message::new,
   [byte_len] = Message::byte_len, [add_storage_header m ts] = Message::add_storage_header(Some ts)
   (Model/Dlt.v).  Domains: [wf_arg] (Spec/WellFormed.v), [wf_config] (Spec/WellFormedConfig.v).

   "any configuration that fits the 16-bit length field" is made precise by [wf_config]; by
   [c15_config_exact] it is EXACTLY the set of configurations from which Message::new builds a
   well-formed message (the domain of the round trip C01), so nothing is excluded beyond need.
   The excluded classes (payload kind not matching the extended-header configuration, > 255
   arguments, total > 65535) are shown by the examples [c15_excluded_*] below to violate the
   conclusion, i.e. the exclusions are necessary.

   "parses back to an equal message" is the composition with C01 (proved elsewhere):
   [c15_new_parses] and [c15_storage_parses] take the C01 statement as an explicit premise. *)
From DltV.Model Require Import Bytes Utf8 Nom Dlt Parse.
From DltV.Spec Require Import WellFormed WellFormedConfig.
From DltV.Proofs Require Import Lengths.
Open Scope N_scope.

(* ---------- Argument::len ---------- *)
Theorem c15_arg_len : forall a e, wf_arg a = true -> arg_len a = len (arg_bytes e a).
Proof. exact arg_len_bytes. Qed.
Check c15_arg_len : forall a e, wf_arg a = true -> arg_len a = len (arg_bytes e a).
Print Assumptions c15_arg_len.

(* ---------- Message::new ---------- *)
Theorem c15_new : forall c sh, wf_config c = true -> wf_opt wf_storage sh = true ->
  let m := message_new c sh in
  h_payload_length (m_header m) = len (payload_bytes (c_endian c) (c_payload c)) /\
  byte_len m = len (message_bytes (strip_storage m)) /\
  len (message_bytes m) = (if is_some sh then 16 else 0) + byte_len m /\
  (forall x, m_ext m = Some x ->
     e_verbose x = required_verbose (c_payload c) /\ e_noar x = required_noar (c_payload c)) /\
  wf_message m = true.
Proof. exact new_consistent. Qed.
Check c15_new : forall c sh, wf_config c = true -> wf_opt wf_storage sh = true ->
  let m := message_new c sh in
  h_payload_length (m_header m) = len (payload_bytes (c_endian c) (c_payload c)) /\
  byte_len m = len (message_bytes (strip_storage m)) /\
  len (message_bytes m) = (if is_some sh then 16 else 0) + byte_len m /\
  (forall x, m_ext m = Some x ->
     e_verbose x = required_verbose (c_payload c) /\ e_noar x = required_noar (c_payload c)) /\
  wf_message m = true.
Print Assumptions c15_new.

(* the constructor copies every field of the configuration; the extended header is present
   exactly when the configuration has extended-header info *)
Theorem c15_new_fields : forall c sh, let m := message_new c sh in
  m_storage m = sh /\ m_payload m = c_payload c /\
  h_version (m_header m) = c_version c /\ h_endian (m_header m) = c_endian c /\
  h_mcnt (m_header m) = c_counter c /\ h_ecu (m_header m) = c_ecu c /\
  h_session (m_header m) = c_session c /\ h_timestamp (m_header m) = c_timestamp c /\
  h_has_ext (m_header m) = is_some (c_ext c) /\
  option_map (fun x => mkExtCfg (e_mtype x) (e_apid x) (e_ctid x)) (m_ext m)
  = option_map (fun x => mkExtCfg (c_mtype x) (c_apid x) (c_ctid x)) (c_ext c).
Proof. exact new_fields. Qed.
Check c15_new_fields : forall c sh, let m := message_new c sh in
  m_storage m = sh /\ m_payload m = c_payload c /\
  h_version (m_header m) = c_version c /\ h_endian (m_header m) = c_endian c /\
  h_mcnt (m_header m) = c_counter c /\ h_ecu (m_header m) = c_ecu c /\
  h_session (m_header m) = c_session c /\ h_timestamp (m_header m) = c_timestamp c /\
  h_has_ext (m_header m) = is_some (c_ext c) /\
  option_map (fun x => mkExtCfg (e_mtype x) (e_apid x) (e_ctid x)) (m_ext m)
  = option_map (fun x => mkExtCfg (c_mtype x) (c_apid x) (c_ctid x)) (c_ext c).
Print Assumptions c15_new_fields.

(* [wf_config] is exactly "Message::new yields a well-formed message" *)
Theorem c15_config_exact : forall c, wf_config c = wf_message (message_new c None).
Proof. exact config_exact. Qed.
Check c15_config_exact : forall c, wf_config c = wf_message (message_new c None).
Print Assumptions c15_config_exact.

(* composition with the round trip C01 (its statement is the premise) *)
Theorem c15_new_parses :
  (forall m rest, wf_message m = true ->
     dlt_message (message_bytes m ++ rest) None (is_some (m_storage m)) = POk (Item m) rest) ->
  forall c sh, wf_config c = true -> wf_opt wf_storage sh = true ->
  dlt_message (message_bytes (message_new c sh)) None (is_some sh) = POk (Item (message_new c sh)) [].
Proof. exact new_parses. Qed.
Check c15_new_parses :
  (forall m rest, wf_message m = true ->
     dlt_message (message_bytes m ++ rest) None (is_some (m_storage m)) = POk (Item m) rest) ->
  forall c sh, wf_config c = true -> wf_opt wf_storage sh = true ->
  dlt_message (message_bytes (message_new c sh)) None (is_some sh) = POk (Item (message_new c sh)) [].
Print Assumptions c15_new_parses.

(* ---------- Message::add_storage_header(Some ts) ---------- *)
Theorem c15_storage : forall m ts,
  let pre := pat_DLT1 ++ put_uint LE 4 (ts_secs ts) ++ put_uint LE 4 (ts_micros ts)
             ++ put_zstring (storage_ecu m) 4 in
  message_bytes (add_storage_header m ts) = pre ++ message_bytes (strip_storage m) /\
  (wf_opt wf_id (h_ecu (m_header m)) = true -> len pre = 16) /\
  (m_storage m = None -> strip_storage m = m) /\
  byte_len (add_storage_header m ts) = byte_len m.
Proof. exact storage_spec. Qed.
Check c15_storage : forall m ts,
  let pre := pat_DLT1 ++ put_uint LE 4 (ts_secs ts) ++ put_uint LE 4 (ts_micros ts)
             ++ put_zstring (storage_ecu m) 4 in
  message_bytes (add_storage_header m ts) = pre ++ message_bytes (strip_storage m) /\
  (wf_opt wf_id (h_ecu (m_header m)) = true -> len pre = 16) /\
  (m_storage m = None -> strip_storage m = m) /\
  byte_len (add_storage_header m ts) = byte_len m.
Print Assumptions c15_storage.

Theorem c15_storage_wf : forall m ts,
  wf_message m = true -> ts_secs ts < 2 ^ 32 -> ts_micros ts < 2 ^ 32 ->
  wf_message (add_storage_header m ts) = true.
Proof. exact storage_wf. Qed.
Check c15_storage_wf : forall m ts,
  wf_message m = true -> ts_secs ts < 2 ^ 32 -> ts_micros ts < 2 ^ 32 ->
  wf_message (add_storage_header m ts) = true.
Print Assumptions c15_storage_wf.

Theorem c15_storage_parses :
  (forall m rest, wf_message m = true ->
     dlt_message (message_bytes m ++ rest) None (is_some (m_storage m)) = POk (Item m) rest) ->
  forall m ts, wf_message m = true -> ts_secs ts < 2 ^ 32 -> ts_micros ts < 2 ^ 32 ->
  dlt_message (message_bytes (add_storage_header m ts)) None true
  = POk (Item (add_storage_header m ts)) [].
Proof. exact storage_parses. Qed.
Check c15_storage_parses :
  (forall m rest, wf_message m = true ->
     dlt_message (message_bytes m ++ rest) None (is_some (m_storage m)) = POk (Item m) rest) ->
  forall m ts, wf_message m = true -> ts_secs ts < 2 ^ 32 -> ts_micros ts < 2 ^ 32 ->
  dlt_message (message_bytes (add_storage_header m ts)) None true
  = POk (Item (add_storage_header m ts)) [].
Print Assumptions c15_storage_parses.

(* ---------- Argument::valid ---------- *)
Theorem c15_valid : forall a,
  (ti_kind_of (a_ti a) = KBool -> arg_valid a = value_is_bool (a_value a)) /\
  (ti_kind_of (a_ti a) = KFloat W32 -> arg_valid a = value_is_f32 (a_value a)) /\
  (ti_kind_of (a_ti a) = KFloat W64 -> arg_valid a = value_is_f64 (a_value a)).
Proof. exact arg_valid_spec. Qed.
Check c15_valid : forall a,
  (ti_kind_of (a_ti a) = KBool -> arg_valid a = value_is_bool (a_value a)) /\
  (ti_kind_of (a_ti a) = KFloat W32 -> arg_valid a = value_is_f32 (a_value a)) /\
  (ti_kind_of (a_ti a) = KFloat W64 -> arg_valid a = value_is_f64 (a_value a)).
Print Assumptions c15_valid.

Theorem c15_wf_valid : forall a, wf_arg a = true -> arg_valid a = true.
Proof. exact wf_arg_valid. Qed.
Check c15_wf_valid : forall a, wf_arg a = true -> arg_valid a = true.
Print Assumptions c15_wf_valid.

(* ================= non-vacuity ================= *)
Definition ex_name : list byte := [x61; x62].            (* "ab" *)
Definition ex_unit : list byte := [x6d; x56].            (* "mV" *)

(* one argument of every kind, with and without variable info, both fixed-point widths *)
Definition ex_args : list argument :=
  [ mkArg (mkTI KBool SAscii true false) (Some ex_name) None None (VBool 1);
    mkArg (mkTI KBool SAscii false false) None None None (VBool 0);
    mkArg (mkTI (KSigned BL16) SAscii true false) (Some ex_name) (Some ex_unit) None (VI16 (-2)%Z);
    mkArg (mkTI (KSigned BL128) SAscii false false) None None None (VI128 (-2)%Z);
    mkArg (mkTI (KUnsigned BL64) SUtf8 false true) None None None (VU64 77);
    mkArg (mkTI (KUnsigned BL8) SAscii true false) (Some []) (Some []) None (VU8 255);
    mkArg (mkTI (KSignedFixed W32) SAscii true false) (Some ex_name) (Some ex_unit)
          (Some (mkFP 1065353216 (FI32 (-5)%Z))) (VI32 7%Z);
    mkArg (mkTI (KSignedFixed W64) SAscii false false) None None
          (Some (mkFP 1065353216 (FI64 (-5)%Z))) (VI64 7%Z);
    mkArg (mkTI (KUnsignedFixed W32) SAscii false false) None None (Some (mkFP 0 (FI32 5%Z))) (VU32 7);
    mkArg (mkTI (KUnsignedFixed W64) SAscii true false) (Some ex_name) (Some ex_unit)
          (Some (mkFP 0 (FI64 5%Z))) (VU64 7);
    mkArg (mkTI (KFloat W32) SAscii true false) (Some ex_name) (Some ex_unit) None (VF32 1065353216);
    mkArg (mkTI (KFloat W64) SAscii false false) None None None (VF64 4607182418800017408);
    mkArg (mkTI KString SUtf8 true false) (Some ex_name) None None (VString [xc3; xa4; x62]);
    mkArg (mkTI KString SAscii false false) None None None (VString []);
    mkArg (mkTI KRaw SAscii true false) (Some ex_name) None None (VRaw [x00; xff; x01]);
    mkArg (mkTI KRaw (SReserved 5) false false) None None None (VRaw []) ].

Example c15_arg_len_example :
  forallb wf_arg ex_args = true /\
  map arg_len ex_args = [10; 5; 16; 20; 12; 11; 26; 24; 16; 34; 18; 12; 15; 7; 14; 6] /\
  map (fun a => len (arg_bytes LE a)) ex_args = map arg_len ex_args /\
  map (fun a => len (arg_bytes BE a)) ex_args = map arg_len ex_args.
Proof. vm_compute. repeat split. Qed.

(* outside [wf_arg] the two lengths do differ: a name on an argument without variable info is
   counted by len() but not written; a value of the wrong variant is counted but not written *)
Example c15_arg_len_needs_wf :
  let a1 := mkArg (mkTI (KUnsigned BL8) SAscii false false) (Some ex_name) None None (VU8 1) in
  let a2 := mkArg (mkTI (KUnsigned BL32) SAscii false false) None None None (VBool 1) in
  (wf_arg a1 = false /\ arg_len a1 = 10 /\ len (arg_bytes LE a1) = 5) /\
  (wf_arg a2 = false /\ arg_len a2 = 8 /\ len (arg_bytes LE a2) = 4).
Proof. vm_compute. repeat split. Qed.

Definition ex_xc : ext_config := mkExtCfg (MLog Info) [x41; x50; x50] [x43; x54; x58; x31].
Definition ex_cfg_verbose : message_config :=
  mkCfg 1 7 BE (Some [x45; x31]) (Some 42) (Some 1000) (PVerbose ex_args) (Some ex_xc).
Definition ex_cfg_nonverbose : message_config :=
  mkCfg 1 7 LE None None None (PNonVerbose 99 [x01; x02]) None.
Definition ex_cfg_nonverbose_ext : message_config :=
  mkCfg 1 7 LE None (Some 1) None (PNonVerbose 99 [x01; x02]) (Some ex_xc).
Definition ex_cfg_control : message_config :=
  mkCfg 1 255 BE None None (Some 5) (PControl CResponse [x13; x00])
        (Some (mkExtCfg (MControl CResponse) [x41] [])).
Definition ex_cfg_trace : message_config :=
  mkCfg 1 0 BE (Some [x45; x31]) None None (PNetworkTrace [[x01; x02]; []; [x03]])
        (Some (mkExtCfg (MNwTrace NCan) [x41] [x42])).
Definition ex_cfgs := [ex_cfg_verbose; ex_cfg_nonverbose; ex_cfg_nonverbose_ext; ex_cfg_control; ex_cfg_trace].
Definition ex_sh : option storage_header := Some (mkSH (mkTS 1700000000 999999) [x45; x31]).

Example c15_new_example :
  forallb wf_config ex_cfgs = true /\ wf_opt wf_storage ex_sh = true /\
  map (fun c => let m := message_new c ex_sh in
         (h_payload_length (m_header m), byte_len m, len (message_bytes m),
          option_map (fun x => (e_verbose x, e_noar x)) (m_ext m))) ex_cfgs
  = [(246, 272, 288, Some (true, 16)); (6, 10, 26, None); (6, 24, 40, Some (false, 0));
     (3, 21, 37, Some (false, 0)); (21, 39, 55, Some (true, 3))] /\
  forallb (fun c => wf_message (message_new c ex_sh) && wf_message (message_new c None)) ex_cfgs = true.
Proof. vm_compute. repeat split. Qed.

(* the premise of [c15_new_parses] holds on these (evaluated, independent of the C01 proof) *)
Example c15_new_parses_example :
  forall c, In c ex_cfgs ->
  dlt_message (message_bytes (message_new c ex_sh)) None true = POk (Item (message_new c ex_sh)) [].
Proof.
  intros c H. cbn [In ex_cfgs] in H.
  repeat (destruct H as [<-|H]; [vm_compute; reflexivity|]). destruct H.
Qed.

Example c15_storage_example :
  let m := message_new ex_cfg_verbose None in
  let m' := message_new ex_cfg_nonverbose None in
  let ts := mkTS 1700000000 999999 in
  wf_message m = true /\ wf_message m' = true /\
  firstn 16 (message_bytes (add_storage_header m ts))
  = [x44; x4c; x54; x01; x00; xf1; x53; x65; x3f; x42; x0f; x00; x45; x31; x00; x00] /\
  skipn 16 (message_bytes (add_storage_header m ts)) = message_bytes m /\
  firstn 16 (message_bytes (add_storage_header m' ts))
  = [x44; x4c; x54; x01; x00; xf1; x53; x65; x3f; x42; x0f; x00; x45; x43; x55; x00] /\
  skipn 16 (message_bytes (add_storage_header m' ts)) = message_bytes m' /\
  wf_message (add_storage_header m ts) = true /\ wf_message (add_storage_header m' ts) = true.
Proof. vm_compute. repeat split. Qed.

Example c15_valid_example :
  let tb := mkTI KBool SAscii false false in
  let tf := mkTI (KFloat W32) SAscii false false in
  let td := mkTI (KFloat W64) SAscii false false in
  map arg_valid
    [ mkArg tb None None None (VBool 1); mkArg tb None None None (VU8 1);
      mkArg tf None None None (VF32 0); mkArg tf None None None (VF64 0);
      mkArg td None None None (VF64 0); mkArg td None None None (VF32 0);
      mkArg td None None None (VString []) ]
  = [true; false; true; false; true; false; false].
Proof. vm_compute. reflexivity. Qed.

(* ---------- the exclusions of [wf_config] are necessary ---------- *)
Definition ex_raw : argument :=
  mkArg (mkTI KRaw SAscii false false) None None None (VRaw [x01; x02; x03; x04]).

(* verbose payload, no extended-header configuration: no extended header is written and the bytes
   read back as a non-verbose payload *)
Example c15_excluded_verbose_without_ext :
  let c := mkCfg 1 7 LE None None None (PVerbose [ex_raw]) None in
  wf_config c = false /\
  exists m', dlt_message (message_bytes (message_new c None)) None false = POk (Item m') [] /\
             m_payload m' = PNonVerbose 1024 [x04; x00; x01; x02; x03; x04].
Proof. split; [reflexivity|]. eexists. split; vm_compute; reflexivity. Qed.

(* verbose payload under a network-trace message type reads back as network-trace slices *)
Example c15_excluded_verbose_nw_type :
  let c := mkCfg 1 7 LE None None None (PVerbose [ex_raw])
                 (Some (mkExtCfg (MNwTrace NCan) [x41] [x42])) in
  wf_config c = false /\
  exists m', dlt_message (message_bytes (message_new c None)) None false = POk (Item m') [] /\
             m_payload m' = PNetworkTrace [[x01; x02; x03; x04]].
Proof. split; [reflexivity|]. eexists. split; vm_compute; reflexivity. Qed.

(* network-trace slices under another message type read back as raw verbose arguments *)
Example c15_excluded_trace_other_type :
  let c := mkCfg 1 7 LE None None None (PNetworkTrace [[x01]]) (Some ex_xc) in
  wf_config c = false /\
  exists m', dlt_message (message_bytes (message_new c None)) None false = POk (Item m') [] /\
             m_payload m' = PVerbose [mkArg (mkTI KRaw SAscii false false) None None None (VRaw [x01])].
Proof. split; [reflexivity|]. eexists. split; vm_compute; reflexivity. Qed.

(* control payload under a non-control message type reads back as non-verbose *)
Example c15_excluded_control_other_type :
  let c := mkCfg 1 7 LE None None None (PControl CRequest [x01; x02; x03]) (Some ex_xc) in
  wf_config c = false /\
  exists m', dlt_message (message_bytes (message_new c None)) None false = POk (Item m') [] /\
             m_payload m' = PNonVerbose 50462977 [].
Proof. split; [reflexivity|]. eexists. split; vm_compute; reflexivity. Qed.

(* more than 255 arguments: NOAR is `len as u8` *)
Fixpoint ex_double {A} (k : nat) (l : list A) : list A :=
  match k with O => l | S k' => ex_double k' (l ++ l) end.

Example c15_excluded_256_arguments :
  let c := mkCfg 1 7 LE None None None (PVerbose (ex_double 8 [ex_raw])) (Some ex_xc) in
  wf_config c = false /\ required_noar (c_payload c) = 256 /\
  option_map e_noar (m_ext (message_new c None)) = Some 0.
Proof. vm_compute. repeat split. Qed.

(* a payload beyond the 16-bit length field: payload_length is `len as u16` *)
Example c15_excluded_too_long :
  let c := mkCfg 1 7 LE None None None (PNonVerbose 1 (ex_double 16 [x00])) None in
  wf_config c = false /\ len (payload_bytes LE (c_payload c)) = 65540 /\
  h_payload_length (m_header (message_new c None)) = 4 /\ byte_len (message_new c None) = 8.
Proof. vm_compute. repeat split. Qed.

(* the boundary: a total of exactly 65535 is inside *)
Example c15_boundary_65535 :
  let c := mkCfg 1 7 LE None None None
             (PNonVerbose 1 (skipn 9 (ex_double 16 [x00]))) None in
  wf_config c = true /\ byte_len (message_new c None) = 65535 /\
  len (message_bytes (message_new c None)) = 65535.
Proof. vm_compute. repeat split. Qed.

(* ---------- the parse-back clauses themselves: the premise above is C01 ---------- *)
From DltV.Proofs Require Roundtrip.

Theorem c15_new_roundtrip : forall c sh, wf_config c = true -> wf_opt wf_storage sh = true ->
  dlt_message (message_bytes (message_new c sh)) None (is_some sh) = POk (Item (message_new c sh)) [].
Proof. exact (c15_new_parses Roundtrip.message_roundtrip). Qed.
Check c15_new_roundtrip : forall c sh, wf_config c = true -> wf_opt wf_storage sh = true ->
  dlt_message (message_bytes (message_new c sh)) None (is_some sh) = POk (Item (message_new c sh)) [].
Print Assumptions c15_new_roundtrip.

Theorem c15_storage_roundtrip : forall m ts,
  wf_message m = true -> ts_secs ts < 2 ^ 32 -> ts_micros ts < 2 ^ 32 ->
  dlt_message (message_bytes (add_storage_header m ts)) None true
  = POk (Item (add_storage_header m ts)) [].
Proof. exact (c15_storage_parses Roundtrip.message_roundtrip). Qed.
Check c15_storage_roundtrip : forall m ts,
  wf_message m = true -> ts_secs ts < 2 ^ 32 -> ts_micros ts < 2 ^ 32 ->
  dlt_message (message_bytes (add_storage_header m ts)) None true
  = POk (Item (add_storage_header m ts)) [].
Print Assumptions c15_storage_roundtrip.
