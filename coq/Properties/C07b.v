(* C07b — the blocking reader built with a caller-chosen scratch length,
     DltMessageReader::with_capacity(buffer_capacity, message_max_len, source, with_storage_header),
   `buffer: vec![0u8; message_max_len]` (read.rs:67-79).

   What this adds to C07: C07 (c07_fragmentation, c07_fragmentation_cap) is about the DEFAULT scratch of
   16 + 65535 bytes (Reader.new_scratch), which holds every message a u16 LEN field can declare.
   Here the scratch length mml is arbitrary:
     c07b_run            for EVERY mml, BufReader capacity, schedule, filter, storage mode the reader delivers
                         the scratch-aware run of the specification, spec_run_mml (Spec/ReaderMmlSpec.v);
     c07b_fits(_cuts)    if every call's need fits (header; complete pieces; the declared total of a trailing
                         record cut off by the end of the stream) this is spec_run — C07's statement;
     c07b_default_..      mml = 16 + 65535 is an instance (by unfolding), its side condition holds for every
                         stream, so c07_fragmentation_cap is a corollary;
     c07b_over / c07b_too_long / c07b_no_header
                         misuse: the outcomes of the records before the first one whose need exceeds mml, then
                         OPanic (debug_assert! in debug builds, the slice index in release builds);
     c07b_reader_of      the reader state the differential test (Model/Run.v: op_read) runs is this one.
   Model: Model/ReaderMml.v over Model/Reader.v (the REPAIRED read.rs).  Spec: Spec/ReaderMmlSpec.v. *)
From DltV.Model Require Import Bytes Nom Dlt Parse Reader ReaderMml.
From DltV.Model Require Run.
From DltV.Spec Require Import ReaderSpec ReaderMmlSpec.
From DltV.Proofs Require Import ReaderMml.
Open Scope N_scope.

(* ---------- the run for every scratch length ---------- *)
Theorem c07b_run : forall mml cap sigma s f sh,
  reader_run_mml mml cap sigma s f sh = (spec_run_mml mml s f sh, true).
Proof. exact reader_run_mml_spec. Qed.
Check c07b_run : forall mml cap sigma s f sh,
  reader_run_mml mml cap sigma s f sh = (spec_run_mml mml s f sh, true).
Print Assumptions c07b_run.

(* ---------- 1. FITS ---------- *)
Theorem c07b_fits : forall mml cap sigma s f sh,
  fits_mml mml s sh = true ->
  reader_run_mml mml cap sigma s f sh = (spec_run s f sh, true).
Proof. exact reader_run_mml_fits. Qed.
Check c07b_fits : forall mml cap sigma s f sh,
  fits_mml mml s sh = true ->
  reader_run_mml mml cap sigma s f sh = (spec_run s f sh, true).
Print Assumptions c07b_fits.

(* the side condition in words: the header, every complete piece of spec_cuts, and the declared total of a
   trailing record that is cut off by the end of the stream *)
Theorem c07b_fits_iff : forall mml s sh,
  fits_mml mml s sh = true
  <-> hdr_len sh <= mml
      /\ Forall (fun c => snd c <= mml) (spec_cuts s sh)
      /\ (forall t, trailing_total s sh = Some t -> t <= mml).
Proof. exact fits_mml_iff. Qed.
Check c07b_fits_iff : forall mml s sh,
  fits_mml mml s sh = true
  <-> hdr_len sh <= mml
      /\ Forall (fun c => snd c <= mml) (spec_cuts s sh)
      /\ (forall t, trailing_total s sh = Some t -> t <= mml).
Print Assumptions c07b_fits_iff.

Theorem c07b_fits_cuts : forall mml cap sigma s f sh,
  hdr_len sh <= mml ->
  Forall (fun c => snd c <= mml) (spec_cuts s sh) ->
  (forall t, trailing_total s sh = Some t -> t <= mml) ->
  reader_run_mml mml cap sigma s f sh = (spec_run s f sh, true).
Proof. exact reader_run_mml_fits_cuts. Qed.
Check c07b_fits_cuts : forall mml cap sigma s f sh,
  hdr_len sh <= mml ->
  Forall (fun c => snd c <= mml) (spec_cuts s sh) ->
  (forall t, trailing_total s sh = Some t -> t <= mml) ->
  reader_run_mml mml cap sigma s f sh = (spec_run s f sh, true).
Print Assumptions c07b_fits_cuts.

(* the needs call by call = the lengths of the complete pieces, then the need of the last call *)
Theorem c07b_needs_by_cuts : forall s sh,
  spec_needs s sh = map snd (spec_cuts s sh) ++ [last_need s sh].
Proof. exact spec_needs_by_cuts. Qed.
Check c07b_needs_by_cuts : forall s sh,
  spec_needs s sh = map snd (spec_cuts s sh) ++ [last_need s sh].
Print Assumptions c07b_needs_by_cuts.

(* what the last call sees is the end of the stream or a cut-off record *)
Theorem c07b_rest_cut : forall s sh,
  spec_cut sh (spec_rest s sh) = CEnd \/ spec_cut sh (spec_rest s sh) = CTrunc.
Proof. exact spec_rest_cut. Qed.
Check c07b_rest_cut : forall s sh,
  spec_cut sh (spec_rest s sh) = CEnd \/ spec_cut sh (spec_rest s sh) = CTrunc.
Print Assumptions c07b_rest_cut.

(* ---------- 2. THE DEFAULT IS AN INSTANCE ---------- *)
Theorem c07b_default_instance : forall cap sigma s f sh,
  reader_run_mml message_max_len cap sigma s f sh = reader_run_cap cap sigma s f sh.
Proof. exact reader_run_mml_default. Qed.
Check c07b_default_instance : forall cap sigma s f sh,
  reader_run_mml message_max_len cap sigma s f sh = reader_run_cap cap sigma s f sh.
Print Assumptions c07b_default_instance.

Theorem c07b_default_fits : forall s sh, fits_mml message_max_len s sh = true.
Proof. exact fits_mml_default. Qed.
Check c07b_default_fits : forall s sh, fits_mml message_max_len s sh = true.
Print Assumptions c07b_default_fits.

(* ... and so does every larger scratch *)
Theorem c07b_large_fits : forall mml s sh, message_max_len <= mml -> fits_mml mml s sh = true.
Proof. exact fits_mml_ge_default. Qed.
Check c07b_large_fits : forall mml s sh, message_max_len <= mml -> fits_mml mml s sh = true.
Print Assumptions c07b_large_fits.

(* C07.c07_fragmentation_cap, proved again from c07b_fits (Proofs/ReaderMml.reader_run_cap_spec_again) *)
Theorem c07b_default_corollary : forall cap sigma s f sh,
  reader_run_cap cap sigma s f sh = (spec_run s f sh, true).
Proof. exact reader_run_cap_spec_again. Qed.
Check c07b_default_corollary : forall cap sigma s f sh,
  reader_run_cap cap sigma s f sh = (spec_run s f sh, true).
Print Assumptions c07b_default_corollary.

(* ---------- 3. TOO LONG ---------- *)
(* general form: i = the index of the first call whose need exceeds mml.  A panic of dlt_message among
   the first i outcomes ends the run there (as in spec_run), hence until_panic. *)
Theorem c07b_over : forall mml cap sigma s f sh i,
  first_over mml (spec_needs s sh) = Some i ->
  reader_run_mml mml cap sigma s f sh = (until_panic (firstn i (spec_run s f sh) ++ [OPanic]), true).
Proof. exact reader_run_mml_over. Qed.
Check c07b_over : forall mml cap sigma s f sh i,
  first_over mml (spec_needs s sh) = Some i ->
  reader_run_mml mml cap sigma s f sh = (until_panic (firstn i (spec_run s f sh) ++ [OPanic]), true).
Print Assumptions c07b_over.

Theorem c07b_too_long : forall mml cap sigma s f sh i,
  first_over mml (spec_needs s sh) = Some i ->
  ~ In OPanic (firstn i (spec_run s f sh)) ->
  reader_run_mml mml cap sigma s f sh = (firstn i (spec_run s f sh) ++ [OPanic], true).
Proof. exact reader_run_mml_too_long. Qed.
Check c07b_too_long : forall mml cap sigma s f sh i,
  first_over mml (spec_needs s sh) = Some i ->
  ~ In OPanic (firstn i (spec_run s f sh)) ->
  reader_run_mml mml cap sigma s f sh = (firstn i (spec_run s f sh) ++ [OPanic], true).
Print Assumptions c07b_too_long.

(* 1 and 3 are exhaustive and exclusive *)
Theorem c07b_fits_or_over : forall mml s sh,
  fits_mml mml s sh = true <-> first_over mml (spec_needs s sh) = None.
Proof. exact fits_mml_first_over. Qed.
Check c07b_fits_or_over : forall mml s sh,
  fits_mml mml s sh = true <-> first_over mml (spec_needs s sh) = None.
Print Assumptions c07b_fits_or_over.

(* a scratch that cannot hold a header: the very first call panics, whatever the stream (even empty) *)
Theorem c07b_no_header : forall mml cap sigma s f sh,
  mml < hdr_len sh -> reader_run_mml mml cap sigma s f sh = ([OPanic], true).
Proof. exact reader_run_mml_no_header. Qed.
Check c07b_no_header : forall mml cap sigma s f sh,
  mml < hdr_len sh -> reader_run_mml mml cap sigma s f sh = ([OPanic], true).
Print Assumptions c07b_no_header.

(* ---------- 4. THE TIE TO THE DIFFERENTIAL TEST ---------- *)
Theorem c07b_reader_of : forall mml sigma s, mml <> 0 ->
  Run.reader_of mml sigma s = mkReader (mkBR [] (mkSrc sigma s)) (scratch_of mml).
Proof. exact run_reader_of_mml. Qed.
Check c07b_reader_of : forall mml sigma s, mml <> 0 ->
  Run.reader_of mml sigma s = mkReader (mkBR [] (mkSrc sigma s)) (scratch_of mml).
Print Assumptions c07b_reader_of.

(* mml = 0 in a test case stands for the default *)
Theorem c07b_reader_of_0 : forall sigma s,
  Run.reader_of 0 sigma s = mkReader (mkBR [] (mkSrc sigma s)) (scratch_of message_max_len).
Proof. exact run_reader_of_0. Qed.
Check c07b_reader_of_0 : forall sigma s,
  Run.reader_of 0 sigma s = mkReader (mkBR [] (mkSrc sigma s)) (scratch_of message_max_len).
Print Assumptions c07b_reader_of_0.

(* the run inside Run.op_read *)
Theorem c07b_op_read : forall c mml sigma s f sh, mml <> 0 ->
  run_with (br_read_exact (Run.cap_mml c mml)) true (length s + 1) f sh (Run.reader_of mml sigma s)
  = reader_run_mml mml (Run.cap_mml c mml) sigma s f sh.
Proof. exact run_op_read_mml. Qed.
Check c07b_op_read : forall c mml sigma s f sh, mml <> 0 ->
  run_with (br_read_exact (Run.cap_mml c mml)) true (length s + 1) f sh (Run.reader_of mml sigma s)
  = reader_run_mml mml (Run.cap_mml c mml) sigma s f sh.
Print Assumptions c07b_op_read.

(* ---------- examples ---------- *)
(* ex_m1 (8 bytes), ex_m2 (10 bytes), ex_sh (storage header), kinds: Spec/ReaderSpec.v;
   kinds: 0 = message, 2 = ParsingHickup, 3 = Unrecoverable, 4 = panic *)

(* three records (8 bytes; LEN = 2; 10 bytes), short reads and interruptions, BufReader capacity 3:
   mml = 10 = the longest total fits; mml = 9 ends in the panic at the third call *)
Example c07b_example_fits_and_over :
  let s := ex_m1 ++ [x00; x00; x00; x02] ++ ex_m2 in
  let sigma := [1; 0; 2; 0; 0; 5; 1] in
  spec_needs s false = [8; 4; 10; 4]
  /\ spec_cuts s false = [(0, 8); (8, 4); (12, 10)] /\ trailing_total s false = None
  /\ fits_mml 10 s false = true
  /\ kinds (reader_run_mml 10 3 sigma s None false) = ([0; 2; 0], true)
  /\ reader_run_mml 10 3 sigma s None false = reader_run_default [] s None false
  /\ fits_mml 9 s false = false /\ first_over 9 (spec_needs s false) = Some 2%nat
  /\ kinds (reader_run_mml 9 3 sigma s None false) = ([0; 2; 4], true)
  /\ first_over 7 (spec_needs s false) = Some 0%nat
  /\ kinds (reader_run_mml 7 3 sigma s None false) = ([4], true).
Proof. vm_compute. repeat split; reflexivity. Qed.

(* the hypotheses of c07b_too_long on that stream *)
Example c07b_example_too_long_hyps :
  let s := ex_m1 ++ [x00; x00; x00; x02] ++ ex_m2 in
  first_over 9 (spec_needs s false) = Some 2%nat
  /\ ~ In OPanic (firstn 2 (spec_run s None false)).
Proof. vm_compute. split; [reflexivity|]. intros [H|[H|[]]]; discriminate. Qed.

(* a trailing record cut off by the end of the stream: its declared total (10) counts although its body
   never arrives — with mml = 9 the reader panics where the default reader reports Unrecoverable *)
Example c07b_example_trailing :
  let s := ex_m1 ++ firstn 7 ex_m2 in
  spec_cuts s false = [(0, 8)] /\ trailing_total s false = Some 10
  /\ spec_needs s false = [8; 10]
  /\ fits_mml 10 s false = true /\ fits_mml 9 s false = false
  /\ kinds (reader_run_mml 10 3 [1; 0; 2; 0; 0; 5; 1] s None false) = ([0; 3], true)
  /\ kinds (reader_run_mml 9 3 [1; 0; 2; 0; 0; 5; 1] s None false) = ([0; 4], true).
Proof. vm_compute. repeat split; reflexivity. Qed.

(* with storage headers: totals 24 and 26 *)
Example c07b_example_storage_header :
  let s := ex_sh ++ ex_m1 ++ ex_sh ++ ex_m2 in
  spec_needs s true = [24; 26; 20]
  /\ fits_mml 26 s true = true /\ first_over 25 (spec_needs s true) = Some 1%nat
  /\ kinds (reader_run_mml 26 7 [5; 0; 30; 0; 1] s None true) = ([0; 0], true)
  /\ kinds (reader_run_mml 25 7 [5; 0; 30; 0; 1] s None true) = ([0; 4], true)
  /\ kinds (reader_run_mml 19 7 [5; 0; 30; 0; 1] s None true) = ([4], true)
  /\ kinds (reader_run_mml 19 7 [5; 0; 30; 0; 1] [] None true) = ([4], true).
Proof. vm_compute. repeat split; reflexivity. Qed.

(* c07b_reader_of / c07b_op_read: a test case with mml = 10, capacity field 0 *)
Example c07b_example_run :
  let s := ex_m1 ++ ex_m2 in
  rd_scratch (Run.reader_of 10 [1; 0] s) = scratch_of 10
  /\ kinds (run_with (br_read_exact 12) true (length s + 1) None false (Run.reader_of 10 [1; 0] s)) = ([0; 0], true)
  /\ kinds (run_with (br_read_exact 12) true (length s + 1) None false (Run.reader_of 9 [1; 0] s)) = ([0; 4], true).
Proof. vm_compute. repeat split; reflexivity. Qed.

(* ---------- the shortcut of the differential run for streams longer than 10 MiB (Model/Run.v, op 43) ----------
   Run.big_stream sh nrec l tail is nrec copies of one record (optional storage header DLT\x01 + 12 zero bytes,
   header type 0x20, counter 0, LEN = l big-endian, l - 4 zero bytes) followed by tail; Run.big_spec_run computes
   the outcome of ONE record, repeats it nrec times (once, if it is a panic) and appends the run of the tail.
   That IS spec_run on the whole stream, for every record count, LEN in 4 .. 65535, tail, filter and storage mode. *)
From DltV.Proofs Require BigStream.
Theorem c07b_big_stream : forall sh nrec l tail f,
  4 <= l -> l <= 65535 ->
  ReaderSpec.spec_run (Run.big_stream sh nrec l tail) f sh = Run.big_spec_run sh nrec l tail f.
Proof. exact DltV.Proofs.BigStream.big_stream_sound. Qed.
Check c07b_big_stream : forall sh nrec l tail f,
  4 <= l -> l <= 65535 ->
  ReaderSpec.spec_run (Run.big_stream sh nrec l tail) f sh = Run.big_spec_run sh nrec l tail f.
Print Assumptions c07b_big_stream.

(* three records of LEN 8 and a tail holding one small message, both storage modes: four messages either way;
   with a tail cut off inside its message: three messages and the Unrecoverable error *)
Example c07b_example_big_stream :
  4 <= 8 /\ 8 <= 65535
  /\ Run.big_stream false 3 8 ex_m1
     = [x20; x00; x00; x08; x00; x00; x00; x00] ++ [x20; x00; x00; x08; x00; x00; x00; x00]
       ++ [x20; x00; x00; x08; x00; x00; x00; x00] ++ ex_m1
  /\ len (Run.big_stream true 3 8 (ex_sh ++ ex_m1)) = 96
  /\ ReaderSpec.spec_run (Run.big_stream false 3 8 ex_m1) None false = Run.big_spec_run false 3 8 ex_m1 None
  /\ map outcome_kind (ReaderSpec.spec_run (Run.big_stream false 3 8 ex_m1) None false) = [0; 0; 0; 0]
  /\ map outcome_kind (Run.big_spec_run false 3 8 ex_m1 None) = [0; 0; 0; 0]
  /\ ReaderSpec.spec_run (Run.big_stream true 3 8 (ex_sh ++ ex_m1)) None true
     = Run.big_spec_run true 3 8 (ex_sh ++ ex_m1) None
  /\ map outcome_kind (ReaderSpec.spec_run (Run.big_stream true 3 8 (ex_sh ++ ex_m1)) None true) = [0; 0; 0; 0]
  /\ map outcome_kind (Run.big_spec_run true 3 8 (ex_sh ++ ex_m1) None) = [0; 0; 0; 0]
  /\ map outcome_kind (ReaderSpec.spec_run (Run.big_stream false 3 8 (firstn 6 ex_m1)) None false) = [0; 0; 0; 3]
  /\ map outcome_kind (Run.big_spec_run false 3 8 (firstn 6 ex_m1) None) = [0; 0; 0; 3]
  /\ map outcome_kind (ReaderSpec.spec_run (Run.big_stream true 0 8 (ex_sh ++ ex_m1)) None true) = [0]
  /\ map outcome_kind (Run.big_spec_run true 0 8 (ex_sh ++ ex_m1) None) = [0].
Proof. vm_compute. repeat split; try reflexivity; discriminate. Qed.

(* ... and with one record of another length in front *)
Theorem c07b_big_stream2 : forall sh l1 nrec l tail f,
  4 <= l1 -> l1 <= 65535 -> 4 <= l -> l <= 65535 ->
  ReaderSpec.spec_run (Run.big_stream sh 1 l1 (Run.big_stream sh nrec l tail)) f sh
  = Run.big_spec_run2 sh l1 nrec l tail f.
Proof.
  intros sh l1 nrec l tail f H1 H2 H3 H4.
  rewrite (c07b_big_stream sh 1 l1 _ f H1 H2).
  destruct l1 as [|p]; [exfalso; apply H1; reflexivity|].
  unfold Run.big_spec_run2, Run.big_spec_run at 1.
  change (N.pos p =? 0) with false. change (1 =? 0) with false. cbv iota.
  rewrite (c07b_big_stream sh nrec l tail f H3 H4).
  destruct (ReaderSpec.spec_outcome (dlt_message (Run.big_record sh (N.pos p)) f sh)); reflexivity.
Qed.
Check c07b_big_stream2 : forall sh l1 nrec l tail f,
  4 <= l1 -> l1 <= 65535 -> 4 <= l -> l <= 65535 ->
  ReaderSpec.spec_run (Run.big_stream sh 1 l1 (Run.big_stream sh nrec l tail)) f sh
  = Run.big_spec_run2 sh l1 nrec l tail f.
Print Assumptions c07b_big_stream2.
