(* C10b — `collect_statistics` (src/statistics.rs:45-100) visits each message of the stream exactly once, in
   order, with its decoded headers, and the standard collector fed by it yields the tally of C10.

   Model/Scan.v: [scan sigma s sh] is the loop of collect_statistics over the blocking reader
   (Model/Reader.v) on the byte stream [s], the source delivering the bytes according to the schedule
   [sigma] of read() results (short reads, Interrupted), in storage-header mode [sh]; the result is the list
   of Statistics handed to the collector, in the order of the calls, and how the scan ended.
   [statistic_full] has all six fields of `Statistic`; [statistic_of_full] projects to the fields the
   standard collector reads (Model/Stats.v [statistic]).  [collect_statistics] is the same loop with the
   StatisticInfoCollector of `mod common`, followed by collect().
   Spec/ScanSpec.v: [spec_scan] = cut the stream at the declared lengths and decode each piece. *)
From DltV.Model Require Import Bytes Nom Dlt Parse Stats Reader Scan.
From DltV.Spec Require Import WellFormed StatsSpec ReaderSpec ScanSpec.
From DltV.Proofs Require Import Roundtrip ScanProofs.
Open Scope N_scope.

(* ---------- each message exactly once, in order, with its headers; the scan ends with Ok ---------- *)
Theorem c10b_visits : forall sigma ms sh,
  Forall (fun m => wf_message m = true /\ has_storage m = sh) ms ->
  scan sigma (flat_map message_bytes ms) sh = (map statistic_full_of_message ms, ScanOk).
Proof. exact scan_visits. Qed.
Check c10b_visits : forall sigma ms sh,
  Forall (fun m => wf_message m = true /\ has_storage m = sh) ms ->
  scan sigma (flat_map message_bytes ms) sh = (map statistic_full_of_message ms, ScanOk).
Print Assumptions c10b_visits.

(* ... for every BufReader capacity (DltMessageReader::with_capacity) *)
Theorem c10b_visits_cap : forall cap sigma ms sh,
  Forall (fun m => wf_message m = true /\ has_storage m = sh) ms ->
  scan_cap cap sigma (flat_map message_bytes ms) sh = (map statistic_full_of_message ms, ScanOk).
Proof. exact scan_cap_visits. Qed.
Check c10b_visits_cap : forall cap sigma ms sh,
  Forall (fun m => wf_message m = true /\ has_storage m = sh) ms ->
  scan_cap cap sigma (flat_map message_bytes ms) sh = (map statistic_full_of_message ms, ScanOk).
Print Assumptions c10b_visits_cap.

(* pins [statistic_full_of_message]: the message's own headers, its serialised payload, level and verbose
   flag read off the extended header *)
Theorem c10b_statistic_full_of_message : forall m,
  fs_storage (statistic_full_of_message m) = m_storage m /\
  fs_std (statistic_full_of_message m) = m_header m /\
  fs_ext (statistic_full_of_message m) = m_ext m /\
  fs_payload (statistic_full_of_message m) = payload_bytes (h_endian (m_header m)) (m_payload m) /\
  fs_level (statistic_full_of_message m)
    = match m_ext m with
      | Some x => match e_mtype x with MLog level => Some level | _ => None end
      | None => None
      end /\
  fs_verbose (statistic_full_of_message m) = match m_ext m with Some x => e_verbose x | None => false end.
Proof. intros. repeat split. Qed.
Check c10b_statistic_full_of_message : forall m,
  fs_storage (statistic_full_of_message m) = m_storage m /\
  fs_std (statistic_full_of_message m) = m_header m /\
  fs_ext (statistic_full_of_message m) = m_ext m /\
  fs_payload (statistic_full_of_message m) = payload_bytes (h_endian (m_header m)) (m_payload m) /\
  fs_level (statistic_full_of_message m)
    = match m_ext m with
      | Some x => match e_mtype x with MLog level => Some level | _ => None end
      | None => None
      end /\
  fs_verbose (statistic_full_of_message m) = match m_ext m with Some x => e_verbose x | None => false end.
Print Assumptions c10b_statistic_full_of_message.

(* the projection to the collector's view is Stats.statistic_of_message (the statistic of C10) *)
Theorem c10b_projection : forall m,
  statistic_of_full (statistic_full_of_message m) = statistic_of_message m.
Proof. exact statistic_of_full_of_message. Qed.
Check c10b_projection : forall m,
  statistic_of_full (statistic_full_of_message m) = statistic_of_message m.
Print Assumptions c10b_projection.

(* one iteration: the three header parsers on the bytes of a message *)
Theorem c10b_slice : forall m, wf_message m = true ->
  statistic_of_slice (has_storage m) (message_bytes m)
  = POk (statistic_full_of_message m) (payload_bytes (h_endian (m_header m)) (m_payload m)).
Proof. exact statistic_of_slice_message_bytes. Qed.
Check c10b_slice : forall m, wf_message m = true ->
  statistic_of_slice (has_storage m) (message_bytes m)
  = POk (statistic_full_of_message m) (payload_bytes (h_endian (m_header m)) (m_payload m)).
Print Assumptions c10b_slice.

(* ---------- the standard collector fed by the scan ---------- *)
Theorem c10b_collect : forall sigma ms sh,
  Forall (fun m => wf_message m = true /\ has_storage m = sh) ms ->
  collect_statistics sigma (flat_map message_bytes ms) sh
  = (collect_all (map statistic_of_message ms), ScanOk).
Proof. exact collect_statistics_messages. Qed.
Check c10b_collect : forall sigma ms sh,
  Forall (fun m => wf_message m = true /\ has_storage m = sh) ms ->
  collect_statistics sigma (flat_map message_bytes ms) sh
  = (collect_all (map statistic_of_message ms), ScanOk).
Print Assumptions c10b_collect.

(* ... is the independent tally of Spec/StatsSpec.v (c10_tally instantiated) *)
Theorem c10b_collect_tally : forall sigma ms sh,
  Forall (fun m => wf_message m = true /\ has_storage m = sh) ms ->
  let l := map statistic_of_message ms in
  let r := collect_statistics sigma (flat_map message_bytes ms) sh in
  snd r = ScanOk /\
  (forall k, NoDup (keys (map_of k (fst r)))) /\
  (forall k id,
     match lookup (map_of k (fst r)) id with
     | Some d => key_present k id l = true /\ forall b, ld_get b d = tally_lookup k id b l
     | None => key_present k id l = false
     end) /\
  si_non_verbose (fst r) = non_verbose_spec l.
Proof. exact collect_statistics_tally. Qed.
Check c10b_collect_tally : forall sigma ms sh,
  Forall (fun m => wf_message m = true /\ has_storage m = sh) ms ->
  let l := map statistic_of_message ms in
  let r := collect_statistics sigma (flat_map message_bytes ms) sh in
  snd r = ScanOk /\
  (forall k, NoDup (keys (map_of k (fst r)))) /\
  (forall k id,
     match lookup (map_of k (fst r)) id with
     | Some d => key_present k id l = true /\ forall b, ld_get b d = tally_lookup k id b l
     | None => key_present k id l = false
     end) /\
  si_non_verbose (fst r) = non_verbose_spec l.
Print Assumptions c10b_collect_tally.

(* ---------- arbitrary streams: the scan does not depend on the schedule, it is the cuts ---------- *)
Theorem c10b_scan_spec : forall sigma s sh, scan sigma s sh = spec_scan s sh.
Proof. exact scan_spec. Qed.
Check c10b_scan_spec : forall sigma s sh, scan sigma s sh = spec_scan s sh.
Print Assumptions c10b_scan_spec.

Theorem c10b_scan_cap_spec : forall cap sigma s sh, scan_cap cap sigma s sh = spec_scan s sh.
Proof. exact scan_cap_spec. Qed.
Check c10b_scan_cap_spec : forall cap sigma s sh, scan_cap cap sigma s sh = spec_scan s sh.
Print Assumptions c10b_scan_cap_spec.

(* the scan ends with Ok or Err: no panic, and the loop fuel of the model is never exhausted *)
Theorem c10b_end : forall sigma s sh,
  snd (scan sigma s sh) = ScanOk \/ exists e, snd (scan sigma s sh) = ScanErr e.
Proof. exact scan_end_cases. Qed.
Check c10b_end : forall sigma s sh,
  snd (scan sigma s sh) = ScanOk \/ exists e, snd (scan sigma s sh) = ScanErr e.
Print Assumptions c10b_end.

(* for every stream the standard collector sees exactly the Statistics of the scan, in order, and the
   result of collect_statistics is the result of the scan *)
Theorem c10b_collect_scan : forall sigma s sh,
  collect_statistics sigma s sh
  = (collect_all (map statistic_of_full (fst (scan sigma s sh))), snd (scan sigma s sh)).
Proof. exact collect_statistics_scan. Qed.
Check c10b_collect_scan : forall sigma s sh,
  collect_statistics sigma s sh
  = (collect_all (map statistic_of_full (fst (scan sigma s sh))), snd (scan sigma s sh)).
Print Assumptions c10b_collect_scan.

(* ---------- examples ---------- *)
Definition ex_u8 : argument := mkArg (mkTI (KUnsigned BL8) SAscii false false) None None None (VU8 200).
(* verbose WARN log message with ECU id, timestamp, extended header, one argument *)
Definition ex_log (sh : option storage_header) : message :=
  mkMsg sh (mkStd 1 BE true 7 (Some [x45; x31]) None (Some 123456) 5)
        (Some (mkExt true 1 (MLog Warn) [x41; x50; x50] [x43; x54; x58])) (PVerbose [ex_u8]).
(* non-verbose message without extended header *)
Definition ex_nv (sh : option storage_header) : message :=
  mkMsg sh (mkStd 1 LE false 0 None None None 4) None (PNonVerbose 67305985 []).
(* control message *)
Definition ex_ctl (sh : option storage_header) : message :=
  mkMsg sh (mkStd 1 LE true 1 None (Some 5) None 3)
        (Some (mkExt false 0 (MControl CResponse) [x41] [x42])) (PControl CResponse [x00; x01]).
Definition ex_sh1 : storage_header := mkSH (mkTS 1700000000 999999) [x45; x43; x55].
Definition ex_sh2 : storage_header := mkSH (mkTS 1 2) [x58].

Definition ex_ms_sh : list message := [ex_log (Some ex_sh1); ex_nv (Some ex_sh2); ex_ctl (Some ex_sh1); ex_log (Some ex_sh2)].
Definition ex_ms : list message := [ex_log None; ex_nv None; ex_ctl None; ex_log None].

(* the hypothesis of c10b_visits / c10b_collect *)
Example c10b_ex_hyp :
  Forall (fun m => wf_message m = true /\ has_storage m = true) ex_ms_sh /\
  Forall (fun m => wf_message m = true /\ has_storage m = false) ex_ms.
Proof. split; repeat (constructor; [split; vm_compute; reflexivity|]); constructor. Qed.

(* by evaluation: one byte at a time with interruptions, short reads, full reads; both modes *)
Example c10b_ex_visits :
  scan [1; 0; 1; 1; 0; 0; 2; 1; 1; 1; 3; 1; 0; 1] (flat_map message_bytes ex_ms_sh) true
    = (map statistic_full_of_message ex_ms_sh, ScanOk) /\
  scan [] (flat_map message_bytes ex_ms_sh) true = (map statistic_full_of_message ex_ms_sh, ScanOk) /\
  scan [7; 0; 100] (flat_map message_bytes ex_ms) false = (map statistic_full_of_message ex_ms, ScanOk) /\
  scan_cap 3 [2; 0; 7] (flat_map message_bytes ex_ms) false = (map statistic_full_of_message ex_ms, ScanOk).
Proof. repeat split; vm_compute; reflexivity. Qed.

Example c10b_ex_statistic :
  statistic_full_of_message (ex_log (Some ex_sh1))
  = mkStatFull (Some Warn) (Some ex_sh1) (mkStd 1 BE true 7 (Some [x45; x31]) None (Some 123456) 5)
               (Some (mkExt true 1 (MLog Warn) [x41; x50; x50] [x43; x54; x58]))
               [x00; x00; x00; x41; xc8] true
  /\ statistic_of_full (statistic_full_of_message (ex_log (Some ex_sh1)))
     = mkStat (Some Warn) (Some [x45; x31]) (Some ([x41; x50; x50], [x43; x54; x58])) true.
Proof. split; vm_compute; reflexivity. Qed.

Example c10b_ex_collect :
  collect_statistics [3; 0; 1; 7] (flat_map message_bytes ex_ms_sh) true
  = (mkSI [ ([x41; x50; x50], mkLD 0 0 0 2 0 0 0 0); ([x41], mkLD 1 0 0 0 0 0 0 0) ]
          [ ([x43; x54; x58], mkLD 0 0 0 2 0 0 0 0); ([x42], mkLD 1 0 0 0 0 0 0 0) ]
          [ ([x45; x31], mkLD 0 0 0 2 0 0 0 0); (NONE_ID, mkLD 2 0 0 0 0 0 0 0) ]
          true, ScanOk).
Proof. vm_compute. reflexivity. Qed.

(* what happens outside the hypothesis (all by c10b_scan_spec the same for every schedule):
   trailing bytes shorter than a header are ignored (Ok); a truncated last message is an Unrecoverable
   error after the complete ones were visited; a declared length below 4 is a ParsingHickup; the wrong mode
   (stream without storage headers read with storage headers) fails in the first piece *)
Example c10b_ex_errors :
  scan [2; 0] (flat_map message_bytes ex_ms ++ [x01; x02; x03]) false = (map statistic_full_of_message ex_ms, ScanOk) /\
  scan [2; 0] (flat_map message_bytes ex_ms ++ firstn 9 (message_bytes (ex_log None))) false
    = (map statistic_full_of_message ex_ms, ScanErr EUnrecoverable) /\
  scan [2; 0] (message_bytes (ex_nv None) ++ [x20; x00; x00; x03] ++ message_bytes (ex_nv None)) false
    = ([statistic_full_of_message (ex_nv None)], ScanErr EHickup) /\
  (exists e, scan [] (flat_map message_bytes ex_ms) true = ([], ScanErr e)).
Proof. repeat split; try (vm_compute; reflexivity). eexists. vm_compute. reflexivity. Qed.
