(* C10 — the standard statistics collector equals an independent tally; the ECU totals add up to
   the number of messages; merging the statistics of the parts of a stream, in any order and
   grouping, gives the statistics of the whole (up to the unspecified entry order of the maps). *)
From Coq Require Import Permutation.
From DltV.Model Require Import Bytes Dlt Stats.
From DltV.Spec Require Import StatsSpec.
From DltV.Proofs Require Import StatsProofs.
Open Scope N_scope.

(* key comparison of the model is equality of the id bytes *)
Theorem c10_bytes_eqb : forall a b : list byte, bytes_eqb a b = true <-> a = b.
Proof. exact bytes_eqb_eq. Qed.
Check c10_bytes_eqb : forall a b : list byte, bytes_eqb a b = true <-> a = b.
Print Assumptions c10_bytes_eqb.

(* ---------- the result is the tally ---------- *)
Theorem c10_tally : forall l : list statistic,
  (forall k, NoDup (keys (map_of k (collect_all l)))) /\
  (forall k id,
     match lookup (map_of k (collect_all l)) id with
     | Some d => key_present k id l = true /\ forall b, ld_get b d = tally_lookup k id b l
     | None => key_present k id l = false
     end) /\
  si_non_verbose (collect_all l) = non_verbose_spec l.
Proof. exact collect_all_tally. Qed.
Check c10_tally : forall l : list statistic,
  (forall k, NoDup (keys (map_of k (collect_all l)))) /\
  (forall k id,
     match lookup (map_of k (collect_all l)) id with
     | Some d => key_present k id l = true /\ forall b, ld_get b d = tally_lookup k id b l
     | None => key_present k id l = false
     end) /\
  si_non_verbose (collect_all l) = non_verbose_spec l.
Print Assumptions c10_tally.

(* ---------- the ECU totals add up to the number of messages ---------- *)
Theorem c10_total : forall l : list statistic,
  map_total (si_ecu (collect_all l)) = N.of_nat (length l).
Proof. exact collect_all_total. Qed.
Check c10_total : forall l : list statistic,
  map_total (si_ecu (collect_all l)) = N.of_nat (length l).
Print Assumptions c10_total.

(* [map_total] is the sum over all entries of all eight buckets *)
Theorem c10_total_is_bucket_sum : forall m : idmap,
  map_total m
  = fold_right (fun e acc => fold_right (fun b acc' => ld_get b (snd e) + acc') 0 all_buckets + acc) 0 m.
Proof. exact map_total_as_buckets. Qed.
Check c10_total_is_bucket_sum : forall m : idmap,
  map_total m
  = fold_right (fun e acc => fold_right (fun b acc' => ld_get b (snd e) + acc') 0 all_buckets + acc) 0 m.
Print Assumptions c10_total_is_bucket_sum.

Theorem c10_total_messages : forall ms : list message,
  map_total (si_ecu (collect_messages ms)) = N.of_nat (length ms).
Proof. exact collect_messages_total. Qed.
Check c10_total_messages : forall ms : list message,
  map_total (si_ecu (collect_messages ms)) = N.of_nat (length ms).
Print Assumptions c10_total_messages.

(* ---------- merging two parts gives the whole ---------- *)
Theorem c10_merge : forall a b : list statistic,
  stat_equiv (merge (collect_all a) (collect_all b)) (collect_all (a ++ b)).
Proof. exact merge_collect_all. Qed.
Check c10_merge : forall a b : list statistic,
  stat_equiv (merge (collect_all a) (collect_all b)) (collect_all (a ++ b)).
Print Assumptions c10_merge.

Theorem c10_merge_messages : forall a b : list message,
  stat_equiv (merge (collect_messages a) (collect_messages b)) (collect_messages (a ++ b)).
Proof. exact collect_messages_app. Qed.
Check c10_merge_messages : forall a b : list message,
  stat_equiv (merge (collect_messages a) (collect_messages b)) (collect_messages (a ++ b)).
Print Assumptions c10_merge_messages.

(* ---------- algebra of merge up to stat_equiv ---------- *)
Theorem c10_merge_assoc : forall a b c, stat_wf a -> stat_wf b -> stat_wf c ->
  stat_equiv (merge (merge a b) c) (merge a (merge b c)).
Proof. exact merge_assoc. Qed.
Check c10_merge_assoc : forall a b c, stat_wf a -> stat_wf b -> stat_wf c ->
  stat_equiv (merge (merge a b) c) (merge a (merge b c)).
Print Assumptions c10_merge_assoc.

Theorem c10_merge_comm : forall a b, stat_wf a -> stat_wf b ->
  stat_equiv (merge a b) (merge b a).
Proof. exact merge_comm. Qed.
Check c10_merge_comm : forall a b, stat_wf a -> stat_wf b ->
  stat_equiv (merge a b) (merge b a).
Print Assumptions c10_merge_comm.

Theorem c10_merge_neutral : forall a, stat_wf a ->
  stat_equiv (merge stat_info_new a) a /\ stat_equiv (merge a stat_info_new) a.
Proof. exact merge_neutral. Qed.
Check c10_merge_neutral : forall a, stat_wf a ->
  stat_equiv (merge stat_info_new a) a /\ stat_equiv (merge a stat_info_new) a.
Print Assumptions c10_merge_neutral.

(* ---------- stat_equiv is an equivalence on results with unique keys; merge respects it;
   every collector result has unique keys; equivalent results have the same entries ---------- *)
Theorem c10_equiv_refl : forall a, stat_wf a -> stat_equiv a a.
Proof. exact stat_equiv_refl. Qed.
Check c10_equiv_refl : forall a, stat_wf a -> stat_equiv a a.
Print Assumptions c10_equiv_refl.

Theorem c10_equiv_sym : forall a b, stat_equiv a b -> stat_equiv b a.
Proof. exact stat_equiv_sym. Qed.
Check c10_equiv_sym : forall a b, stat_equiv a b -> stat_equiv b a.
Print Assumptions c10_equiv_sym.

Theorem c10_equiv_trans : forall a b c, stat_equiv a b -> stat_equiv b c -> stat_equiv a c.
Proof. exact stat_equiv_trans. Qed.
Check c10_equiv_trans : forall a b c, stat_equiv a b -> stat_equiv b c -> stat_equiv a c.
Print Assumptions c10_equiv_trans.

Theorem c10_merge_respects : forall a a' b b',
  stat_equiv a a' -> stat_equiv b b' -> stat_equiv (merge a b) (merge a' b').
Proof. exact merge_equiv. Qed.
Check c10_merge_respects : forall a a' b b',
  stat_equiv a a' -> stat_equiv b b' -> stat_equiv (merge a b) (merge a' b').
Print Assumptions c10_merge_respects.

Theorem c10_collect_wf : forall l : list statistic, stat_wf (collect_all l).
Proof. exact collect_all_wf. Qed.
Check c10_collect_wf : forall l : list statistic, stat_wf (collect_all l).
Print Assumptions c10_collect_wf.

Theorem c10_merge_wf : forall a b, stat_wf a -> stat_wf (merge a b).
Proof. exact merge_wf. Qed.
Check c10_merge_wf : forall a b, stat_wf a -> stat_wf (merge a b).
Print Assumptions c10_merge_wf.

Theorem c10_equiv_entries : forall a b, stat_equiv a b ->
  forall k, Permutation (map_of k a) (map_of k b).
Proof. exact stat_equiv_Permutation. Qed.
Check c10_equiv_entries : forall a b, stat_equiv a b ->
  forall k, Permutation (map_of k a) (map_of k b).
Print Assumptions c10_equiv_entries.

(* ---------- the result does not depend on the order of the messages ---------- *)
Theorem c10_perm : forall l l' : list statistic, Permutation l l' ->
  stat_equiv (collect_all l) (collect_all l').
Proof. exact collect_all_perm. Qed.
Check c10_perm : forall l l' : list statistic, Permutation l l' ->
  stat_equiv (collect_all l) (collect_all l').
Print Assumptions c10_perm.

(* ---------- any split, any order, any grouping ---------- *)
(* a merge tree evaluates to the statistics of its leaves read left to right *)
Theorem c10_any_tree : forall t : mtree, stat_equiv (eval_tree t) (collect_all (flatten t)).
Proof. exact eval_tree_flatten. Qed.
Check c10_any_tree : forall t : mtree, stat_equiv (eval_tree t) (collect_all (flatten t)).
Print Assumptions c10_any_tree.

(* two merge trees over the same messages (in any order, split and grouped in any way) agree *)
Theorem c10_any_two_trees : forall t t' : mtree, Permutation (flatten t) (flatten t') ->
  stat_equiv (eval_tree t) (eval_tree t').
Proof. exact eval_tree_perm. Qed.
Check c10_any_two_trees : forall t t' : mtree, Permutation (flatten t) (flatten t') ->
  stat_equiv (eval_tree t) (eval_tree t').
Print Assumptions c10_any_two_trees.

(* the corollary in the words of the property: split a stream into [parts] (at message
   boundaries), take the parts in any order ([Permutation]) and merge them in any grouping
   (any tree with these leaves): the result is the statistics of the whole stream *)
Theorem c10_split_any : forall (parts : list (list statistic)) (t : mtree),
  Permutation (leaves t) parts -> stat_equiv (eval_tree t) (collect_all (concat parts)).
Proof. exact eval_tree_parts. Qed.
Check c10_split_any : forall (parts : list (list statistic)) (t : mtree),
  Permutation (leaves t) parts -> stat_equiv (eval_tree t) (collect_all (concat parts)).
Print Assumptions c10_split_any.

Theorem c10_split_any_messages : forall (parts : list (list message)) (t : mtree),
  Permutation (leaves t) (map (map statistic_of_message) parts) ->
  stat_equiv (eval_tree t) (collect_messages (concat parts)).
Proof. exact eval_tree_message_parts. Qed.
Check c10_split_any_messages : forall (parts : list (list message)) (t : mtree),
  Permutation (leaves t) (map (map statistic_of_message) parts) ->
  stat_equiv (eval_tree t) (collect_messages (concat parts)).
Print Assumptions c10_split_any_messages.

(* ---------- examples: the definitions compute and the hypotheses are satisfiable ---------- *)
Definition ex_ecu1 : list byte := [x45; x43; x55; x31].   (* "ECU1" *)
Definition ex_app : list byte := [x41; x50; x50].         (* "APP" *)
Definition ex_app2 : list byte := [x41; x50; x32].        (* "AP2" *)
Definition ex_ctx : list byte := [x43; x54; x58].         (* "CTX" *)

Definition ex_msg (ecu : option (list byte)) (x : option ext_header) : message :=
  mkMsg None
    (mkStd 1 BE (match x with Some _ => true | None => false end) 0 ecu None None 0)
    x (PNonVerbose 0 []).

Definition ex_stream : list message :=
  [ ex_msg (Some ex_ecu1) (Some (mkExt true 0 (MLog Info) ex_app ex_ctx));
    ex_msg None None;
    ex_msg (Some ex_ecu1) (Some (mkExt true 0 (MLog (LInvalid 9)) ex_app2 ex_ctx));
    ex_msg None (Some (mkExt false 0 (MControl CRequest) ex_app ex_ctx));
    ex_msg (Some ex_ecu1) (Some (mkExt true 0 (MLog Info) ex_app ex_ctx)) ].

Definition ex_stats : list statistic := map statistic_of_message ex_stream.

Example c10_ex_statistics : ex_stats =
  [ mkStat (Some Info) (Some ex_ecu1) (Some (ex_app, ex_ctx)) true;
    mkStat None None None false;
    mkStat (Some (LInvalid 9)) (Some ex_ecu1) (Some (ex_app2, ex_ctx)) true;
    mkStat None None (Some (ex_app, ex_ctx)) false;
    mkStat (Some Info) (Some ex_ecu1) (Some (ex_app, ex_ctx)) true ].
Proof. reflexivity. Qed.

Example c10_ex_collect : collect_messages ex_stream =
  mkSI [ (ex_app, mkLD 1 0 0 0 2 0 0 0); (ex_app2, mkLD 0 0 0 0 0 0 0 1) ]
       [ (ex_ctx, mkLD 1 0 0 0 2 0 0 1) ]
       [ (ex_ecu1, mkLD 0 0 0 0 2 0 0 1); (NONE_ID, mkLD 2 0 0 0 0 0 0 0) ]
       true.
Proof. vm_compute. reflexivity. Qed.

Example c10_ex_tally :
  tally_lookup KEcu ex_ecu1 BInfo ex_stats = 2 /\ tally_lookup KEcu NONE_ID BNonLog ex_stats = 2 /\
  tally_lookup KApp ex_app2 BInvalid ex_stats = 1 /\ tally_lookup KCtx ex_ctx BNonLog ex_stats = 1 /\
  key_present KApp ex_ecu1 ex_stats = false /\ non_verbose_spec ex_stats = true /\
  map_total (si_ecu (collect_all ex_stats)) = 5.
Proof. vm_compute. repeat split; reflexivity. Qed.

(* the stream split 2 + 3: the two merge orders give different entry orders, which is why the
   statement is up to [stat_equiv]; both are equivalent to the statistics of the whole *)
Definition ex_part1 : list statistic := firstn 2 ex_stats.
Definition ex_part2 : list statistic := skipn 2 ex_stats.

Example c10_ex_split : ex_part1 ++ ex_part2 = ex_stats /\ ex_part1 <> [] /\ ex_part2 <> [].
Proof. vm_compute. repeat split; discriminate. Qed.

Example c10_ex_merge_12 : merge (collect_all ex_part1) (collect_all ex_part2) = collect_all ex_stats.
Proof. vm_compute. reflexivity. Qed.

Example c10_ex_merge_21 :
  merge (collect_all ex_part2) (collect_all ex_part1) =
  mkSI [ (ex_app2, mkLD 0 0 0 0 0 0 0 1); (ex_app, mkLD 1 0 0 0 2 0 0 0) ]
       [ (ex_ctx, mkLD 1 0 0 0 2 0 0 1) ]
       [ (ex_ecu1, mkLD 0 0 0 0 2 0 0 1); (NONE_ID, mkLD 2 0 0 0 0 0 0 0) ]
       true
  /\ merge (collect_all ex_part2) (collect_all ex_part1) <> collect_all ex_stats.
Proof. vm_compute. split; [reflexivity | discriminate]. Qed.

Example c10_ex_merge_21_equiv :
  stat_equiv (merge (collect_all ex_part2) (collect_all ex_part1)) (collect_all ex_stats).
Proof.
  apply (c10_split_any [ex_part1; ex_part2] (Node (Leaf ex_part2) (Leaf ex_part1))).
  apply perm_swap.
Qed.

(* a three-way split merged in a different order and grouping *)
Example c10_ex_tree :
  stat_equiv
    (eval_tree (Node (Leaf (skipn 3 ex_stats)) (Node (Leaf (firstn 1 ex_stats)) (Leaf (firstn 2 (skipn 1 ex_stats))))))
    (collect_all ex_stats).
Proof.
  apply (c10_split_any [firstn 1 ex_stats; firstn 2 (skipn 1 ex_stats); skipn 3 ex_stats]).
  cbn [leaves app]. apply (Permutation_cons_append [_; _]).
Qed.

(* the well-formedness hypothesis of the merge laws holds for hand-written results, too *)
Example c10_ex_wf :
  stat_wf (mkSI [ (ex_app, mkLD 1 0 0 0 0 0 0 0); (ex_app2, mkLD 0 2 0 0 0 0 0 0) ]
                [ (ex_ctx, mkLD 1 2 0 0 0 0 0 0) ] [ (NONE_ID, mkLD 1 2 0 0 0 0 0 0) ] false).
Proof.
  intros []; cbn; repeat constructor; cbn; try tauto.
  intros [H|[]]. discriminate H.
Qed.
