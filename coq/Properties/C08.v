(* C08 — the async reader delivers what the blocking reader delivers, on every poll schedule.
   Model: Model/Stream.v (the REPAIRED stream.rs over futures::io::BufReader + ReadExact). *)
From DltV.Model Require Import Bytes Nom Dlt Parse Reader Stream.
From DltV.Spec Require Import ReaderSpec.
From DltV.Proofs Require Import ReaderProofs StreamProofs.
Open Scope N_scope.

Theorem c08_schedule : forall pi s f sh,
  async_run_default pi s f sh = reader_run_default [] s f sh.
Proof. exact async_eq_blocking. Qed.
Check c08_schedule : forall pi s f sh,
  async_run_default pi s f sh = reader_run_default [] s f sh.
Print Assumptions c08_schedule.

(* any poll schedule against any blocking schedule *)
Theorem c08_schedule_any : forall pi sigma s f sh,
  async_run_default pi s f sh = reader_run_default sigma s f sh.
Proof. exact async_eq_blocking_any. Qed.
Check c08_schedule_any : forall pi sigma s f sh,
  async_run_default pi s f sh = reader_run_default sigma s f sh.
Print Assumptions c08_schedule_any.

(* directly against the cuts, for every BufReader capacity; the loop ends *)
Theorem c08_spec : forall cap pi s f sh,
  async_run_cap cap pi s f sh = (spec_run s f sh, true).
Proof. exact async_run_cap_spec. Qed.
Check c08_spec : forall cap pi s f sh,
  async_run_cap cap pi s f sh = (spec_run s f sh, true).
Print Assumptions c08_spec.

Theorem c08_no_panic : forall pi s f sh,
  (forall bs, dlt_message bs f sh <> PPanic) ->
  ~ In OPanic (fst (async_run_default pi s f sh)).
Proof. exact async_run_default_no_panic. Qed.
Check c08_no_panic : forall pi s f sh,
  (forall bs, dlt_message bs f sh <> PPanic) ->
  ~ In OPanic (fst (async_run_default pi s f sh)).
Print Assumptions c08_no_panic.

(* the committed (pre-repair) async reader panics as well *)
Theorem c08_pinned_refuted :
  async_run_pinned [0; 1; 0] [x00; x00; x00; x02] None false = ([OPanic], true).
Proof. exact async_run_pinned_panics. Qed.
Check c08_pinned_refuted :
  async_run_pinned [0; 1; 0] [x00; x00; x00; x02] None false = ([OPanic], true).
Print Assumptions c08_pinned_refuted.

(* ---------- examples ---------- *)
(* ex_m1, ex_m2, kinds: Spec/ReaderSpec.v *)

(* always ready; pending polls between one-byte chunks; chunk boundaries inside headers *)
Example c08_example_schedules :
  let s := ex_m1 ++ ex_m2 in
  let r := reader_run_default [] s None false in
  async_run_default [] s None false = r
  /\ async_run_default [0; 0; 1; 0; 1; 1; 0; 1; 0; 0; 0; 1; 1; 1; 1; 1; 1; 1; 1; 1; 1; 1; 1; 1; 1] s None false = r
  /\ async_run_default [3; 0; 7; 0; 0; 2] s None false = r
  /\ async_run_cap 3 [0; 2; 0; 7] s None false = r
  /\ kinds r = ([0; 0], true).
Proof. vm_compute. repeat split; reflexivity. Qed.

Example c08_example_short_length_and_truncation :
  kinds (async_run_default [0; 1; 0; 2] (ex_m1 ++ [x00; x00; x00; x02] ++ ex_m2) None false) = ([0; 2; 0], true)
  /\ kinds (async_run_default [0; 4; 0; 1] (ex_m1 ++ firstn 7 ex_m2) None false) = ([0; 3], true)
  /\ kinds (async_run_default [0; 4; 0; 1] (ex_m1 ++ firstn 3 ex_m2) None false) = ([0], true).
Proof. vm_compute. repeat split; reflexivity. Qed.
