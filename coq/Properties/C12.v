(* C12 — "For every file content - valid, truncated at any byte, with elements or attributes
   removed, or arbitrarily corrupted - and for missing files, loading terminates promptly and
   returns either a model or nothing; it never loops forever and never panics."

   The model (Model/Fibex.v) starts at the XML event sequence quick-xml delivers for the file
   content, whatever that content is; a missing file is [FileMissing].  The statements below are
   about the REPAIRED read_pdu/read_frame (Eof inside a PDU/FRAME is an error);
   [c12_pinned_refuted] shows that the pre-repair loops spin forever on a truncated file. *)
From Coq.Strings Require Import Ascii String.
From DltV.Model Require Import Bytes RustInt Dlt Fibex.
From DltV.Proofs Require Import FibexTerm.
Open Scope N_scope.

(* terminates within a number of loop iterations linear in the size of the input ... *)
Theorem c12_terminates : forall files, load_fuel (fuel_bound files) files <> OutOfFuel.
Proof. exact load_terminates. Qed.
Check c12_terminates : forall files, load_fuel (fuel_bound files) files <> OutOfFuel.
Print Assumptions c12_terminates.

Theorem c12_fuel_bound_linear : forall files, fuel_bound files = S (S (total_events files)).
Proof. exact fuel_bound_linear. Qed.
Check c12_fuel_bound_linear : forall files, fuel_bound files = S (S (total_events files)).
Print Assumptions c12_fuel_bound_linear.

(* ... and the answer does not depend on the fuel once there is enough of it *)
Theorem c12_fuel_monotone : forall n files r,
  load_fuel n files = r -> r <> OutOfFuel -> forall m, (n <= m)%nat -> load_fuel m files = r.
Proof. exact load_fuel_mono. Qed.
Check c12_fuel_monotone : forall n files r,
  load_fuel n files = r -> r <> OutOfFuel -> forall m, (n <= m)%nat -> load_fuel m files = r.
Print Assumptions c12_fuel_monotone.

(* never panics: the only index/slice expressions (attr_opt) are modelled with explicit bounds
   checks that yield LoadPanic, and no input reaches them out of bounds *)
Theorem c12_no_panic : forall n files, load_fuel n files <> LoadPanic.
Proof. exact load_no_panic. Qed.
Check c12_no_panic : forall n files, load_fuel n files <> LoadPanic.
Print Assumptions c12_no_panic.

(* a model or nothing *)
Theorem c12_model_or_nothing : forall files,
  (exists m, load files = Loaded m /\ gather_fibex_data files = Some m) \/
  (load files = Refused /\ gather_fibex_data files = None).
Proof. exact load_model_or_nothing. Qed.
Check c12_model_or_nothing : forall files,
  (exists m, load files = Loaded m /\ gather_fibex_data files = Some m) \/
  (load files = Refused /\ gather_fibex_data files = None).
Print Assumptions c12_model_or_nothing.

(* the pre-repair code: a file that ends inside a PDU makes the loader spin forever *)
Theorem c12_pinned_refuted : exists files, forall fuel, load_pinned fuel files = OutOfFuel.
Proof. exact load_pinned_refuted. Qed.
Check c12_pinned_refuted : exists files, forall fuel, load_pinned fuel files = OutOfFuel.
Print Assumptions c12_pinned_refuted.

(* concrete runs *)
Definition ex_id (v : string) : xattr := Attr (bs "ID") (Some (bs v)).
Definition ex_truncated_pdu : list xfile := [FileEvents [XStart (bs "PDU") [ex_id "x"]]].
Definition ex_truncated_frame : list xfile :=
  [FileEvents [XStart (bs "FRAME") [ex_id "x"]; XStart (bs "SHORT-NAME") []; XText (Some (bs "n"))]].

Example c12_ex_truncated_pdu_repaired : load ex_truncated_pdu = Refused.
Proof. vm_compute. reflexivity. Qed.
Example c12_ex_truncated_pdu_pinned : load_pinned 1000 ex_truncated_pdu = OutOfFuel.
Proof. vm_compute. reflexivity. Qed.
Example c12_ex_truncated_frame_repaired : load ex_truncated_frame = Refused.
Proof. vm_compute. reflexivity. Qed.
Example c12_ex_truncated_frame_pinned : load_pinned 1000 ex_truncated_frame = OutOfFuel.
Proof. vm_compute. reflexivity. Qed.
Example c12_ex_missing_file : load [FileEvents []; FileMissing] = Refused.
Proof. vm_compute. reflexivity. Qed.
Example c12_ex_no_files : load [] = Refused.
Proof. vm_compute. reflexivity. Qed.
Example c12_ex_empty_file : load [FileEvents []] = Loaded (mkMeta [] []).
Proof. vm_compute. reflexivity. Qed.
Example c12_ex_xml_error : load [FileEvents [XOther; XErr]] = Refused.
Proof. vm_compute. reflexivity. Qed.
(* an attribute error before the ID attribute, a missing ID, a value that fails to unescape *)
Example c12_ex_attr_err :
  load [FileEvents [XStart (bs "PDU") [AttrErr; ex_id "x"]]] = Refused /\
  load [FileEvents [XStart (bs "PDU") []]] = Refused /\
  load [FileEvents [XStart (bs "PDU") [Attr (bs "ID") None]]] = Refused.
Proof. vm_compute. auto. Qed.
(* a key that merely ends in the name without ':' does not match and does not panic *)
Example c12_ex_attr_suffix :
  attr_opt [Attr (bs "XID") (Some (bs "a")); Attr (bs "n:ID") (Some (bs "b")); AttrErr] (bs "ID")
  = AVal (Some (bs "b")).
Proof. vm_compute. reflexivity. Qed.
