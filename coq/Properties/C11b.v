(* C11b — C11 for FIBEX documents as tools write them.

   C11 (Properties/C11.v) is stated for the bare canonical event shape [files_of l] of
   Spec/FibexSpec.v.  Real documents (tests/dlt-messages.xml; style 1 of the test harness's
   generator) additionally contain an XML declaration and comments, white-space Text between all
   tags, wrapper elements (FIBEX, PROJECT with a SHORT-NAME, ELEMENTS, PDUS, FRAMES, SIGNALS,
   CODINGS), ignored children (SHORT-NAME inside SIGNAL and CODING, CODED-TYPE with further
   attributes and a nested BIT-LENGTH), and an ECU block whose SHORT-NAME / MANUFACTURER-EXTENSION /
   APPLICATION_ID / CONTEXT_ID elements the loader's reader does act upon.

   Spec/FibexPretty.v defines [file_pad els file']: file' is a padding of the canonical rendering
   of the elements els (layer 1 [pad0]: inert events anywhere except directly behind a Start event
   whose text the loader reads, and attribute lists that agree on ID / ID-REF / BASE-DATA-TYPE;
   layer 2 [pad_elements]: state-changing but harmless [noise] between top-level elements and inside
   SIGNAL / CODING; layer 1 is used in both directions, so file' may also lack inert events of the
   canonical shape).  Padding does not change what the loader returns. *)
From Coq Require Import Sorting.Permutation.
From Coq.Strings Require Import Ascii String.
From DltV.Model Require Import Bytes RustInt Dlt Fibex.
From DltV.Spec Require Import FibexSpec FibexPretty.
From DltV.Proofs Require Import FibexOrder FibexPretty.
Open Scope N_scope.

(* ---- padding is irrelevant ---- *)
Theorem c11b_padding_irrelevant : forall (l : layout) (files' : list xfile),
  elements_ok (concat l) = true -> Forall2 file_pad l files' ->
  load files' = load (files_of l) /\ gather_fibex_data files' = gather_fibex_data (files_of l).
Proof. exact padding_irrelevant. Qed.
Check c11b_padding_irrelevant : forall (l : layout) (files' : list xfile),
  elements_ok (concat l) = true -> Forall2 file_pad l files' ->
  load files' = load (files_of l) /\ gather_fibex_data files' = gather_fibex_data (files_of l).
Print Assumptions c11b_padding_irrelevant.

(* layer 1 alone holds for ARBITRARY event lists (malformed documents included): the loader's
   verdict, whatever it is, does not change *)
Theorem c11b_inert_irrelevant : forall (files files' : list xfile),
  Forall2 xfile_pad0 files files' -> load files' = load files.
Proof. exact pad0_load. Qed.
Check c11b_inert_irrelevant : forall (files files' : list xfile),
  Forall2 xfile_pad0 files files' -> load files' = load files.
Print Assumptions c11b_inert_irrelevant.

(* balanced elements with unrecognised names (nested, with text, comments, any attributes) consist
   of inert events, hence may be inserted wherever an inert event may *)
Theorem c11b_inert_forest : forall j l l', inert_forest j -> pad0 l l' -> pad0 l (j ++ l').
Proof. exact pad0_ins_forest. Qed.
Check c11b_inert_forest : forall j l l', inert_forest j -> pad0 l l' -> pad0 l (j ++ l').
Print Assumptions c11b_inert_forest.

(* the canonical rendering is a padding of itself *)
Theorem c11b_pad_refl : forall (l : layout), Forall2 file_pad l (files_of l).
Proof. exact file_pad_render. Qed.
Check c11b_pad_refl : forall (l : layout), Forall2 file_pad l (files_of l).
Print Assumptions c11b_pad_refl.

(* ---- combined with C11: loading a padded rendering of a layout returns its meaning ---- *)
Theorem c11b_load_padded : forall (a : afibex) (l : layout) (files' : list xfile),
  is_layout_of a l -> model_ok a = true -> Forall2 file_pad l files' ->
  exists m d, gather_fibex_data files' = Some m /\ denote (concat l) = Some d /\ meta_equiv m d.
Proof. exact load_padded. Qed.
Check c11b_load_padded : forall (a : afibex) (l : layout) (files' : list xfile),
  is_layout_of a l -> model_ok a = true -> Forall2 file_pad l files' ->
  exists m d, gather_fibex_data files' = Some m /\ denote (concat l) = Some d /\ meta_equiv m d.
Print Assumptions c11b_load_padded.

Theorem c11b_load_padded_elements : forall (l : layout) (files' : list xfile),
  l <> [] -> elements_ok (concat l) = true -> Forall2 file_pad l files' ->
  match denote (concat l) with
  | Some d => exists m, gather_fibex_data files' = Some m /\ meta_equiv m d
  | None => load files' = Refused /\ gather_fibex_data files' = None
  end.
Proof. exact load_padded_elements. Qed.
Check c11b_load_padded_elements : forall (l : layout) (files' : list xfile),
  l <> [] -> elements_ok (concat l) = true -> Forall2 file_pad l files' ->
  match denote (concat l) with
  | Some d => exists m, gather_fibex_data files' = Some m /\ meta_equiv m d
  | None => load files' = Refused /\ gather_fibex_data files' = None
  end.
Print Assumptions c11b_load_padded_elements.

Theorem c11b_load_padded_canonical : forall (a : afibex) (l : layout) (files' : list xfile),
  is_layout_of a l -> model_ok a = true -> unique_ids (render_elements a) ->
  Forall2 file_pad l files' ->
  exists m d, gather_fibex_data files' = Some m /\ denote (render_elements a) = Some d /\
              meta_equiv m d.
Proof. exact load_padded_canonical. Qed.
Check c11b_load_padded_canonical : forall (a : afibex) (l : layout) (files' : list xfile),
  is_layout_of a l -> model_ok a = true -> unique_ids (render_elements a) ->
  Forall2 file_pad l files' ->
  exists m d, gather_fibex_data files' = Some m /\ denote (render_elements a) = Some d /\
              meta_equiv m d.
Print Assumptions c11b_load_padded_canonical.

(* ========================================================================================== *)
(* a style-1 document (harness/src/genfibex.rs, render_file with style = 1, ecu_block = true)   *)
(* ========================================================================================== *)
Definition xp1 : apdu := mkAPdu (bs "P1") (bs "P1") (Some (bs "speed: ")) 8 [(0, bs "SIG1")].
Definition xf7 : aframe :=
  mkAFrame (bs "ID_7") (bs "frame7") 8 (Some (bs "APP")) (Some (bs "CTX"))
           (Some (bs "DLT_TYPE_LOG")) (Some (bs "DLT_LOG_WARN")) [(0, bs "P1")].
Definition xmodel : afibex :=
  mkAFibex [xf7] [xp1] [(bs "SIG1", bs "COD1")] [(bs "COD1", bs "A_FLOAT64")].
Definition xels : list element :=
  [ElPdu xp1; ElFrame xf7; ElSignal (bs "SIG1") (bs "COD1"); ElCoding (bs "COD1") (bs "A_FLOAT64")].
Definition xlayout : layout := [xels].

(* "\n" followed by the indentation of depth d *)
Definition nl (d : nat) : xevent := XText (Some (n2b 10 :: repeat (n2b 32) (4 * d))).
Definition st (n : string) : xevent := XStart (bs n) [].
Definition en (n : string) : xevent := XEnd (bs n).
Definition at_ (k v : string) : xattr := Attr (bs k) (Some (bs v)).
(* <n>t</n> preceded by its line break *)
Definition tx (d : nat) (n t : string) : list xevent := nl d :: text_el n (bs t).

(* the events quick-xml delivers (local names; attribute keys keep their prefix) *)
Definition xdoc : list xevent :=
  [XOther;                                                              (* <?xml ..?> *)
   nl 0; XStart (bs "FIBEX") [at_ "xmlns:ho" "http://www.asam.net/xml";
                              at_ "xmlns:fx" "http://www.asam.net/xml/fbx"];
   nl 1; XStart (bs "PROJECT") [at_ "ID" "Project"]]
  ++ tx 2 "SHORT-NAME" "ProjectName"
  ++ [nl 1; en "PROJECT";
      nl 1; st "ELEMENTS";
      nl 2; st "ECUS";
      nl 3; XStart (bs "ECU") [at_ "ID" "ECU1"]]
  ++ tx 4 "SHORT-NAME" "ECU1"
  ++ [nl 4; st "MANUFACTURER-EXTENSION"]
  ++ tx 5 "SW_VERSION" "unknown"
  ++ [nl 5; st "APPLICATIONS"; nl 6; st "APPLICATION"]
  ++ tx 7 "APPLICATION_ID" "DR"
  ++ tx 7 "APPLICATION_DESCRIPTION" "XYZ"
  ++ [nl 7; st "CONTEXTS"; nl 8; st "CONTEXT"]
  ++ tx 9 "CONTEXT_ID" "TIME"
  ++ tx 9 "CONTEXT_DESCRIPTION" "Description"
  ++ [nl 8; en "CONTEXT"; nl 7; en "CONTEXTS"; nl 6; en "APPLICATION"; nl 5; en "APPLICATIONS";
      nl 4; en "MANUFACTURER-EXTENSION"; nl 3; en "ECU"; nl 2; en "ECUS";
      nl 0; XOther;                                                     (* <!-- generated --> *)
      (* PDU *)
      nl 2; st "PDUS";
      nl 3; XStart (bs "PDU") [at_ "ID" "P1"]]
  ++ tx 4 "SHORT-NAME" "P1"
  ++ tx 4 "DESC" "speed: "
  ++ tx 4 "BYTE-LENGTH" "8"
  ++ tx 4 "PDU-TYPE" "OTHER"
  ++ [nl 4; st "SIGNAL-INSTANCES";
      nl 5; XStart (bs "SIGNAL-INSTANCE") [at_ "ID" "I"]]
  ++ tx 6 "SEQUENCE-NUMBER" "0"
  ++ [nl 6; XEmpty (bs "SIGNAL-REF") [at_ "ID-REF" "SIG1"];
      nl 5; en "SIGNAL-INSTANCE";
      nl 4; en "SIGNAL-INSTANCES";
      nl 3; en "PDU";
      nl 2; en "PDUS";
      (* FRAME *)
      nl 2; st "FRAMES";
      nl 3; XStart (bs "FRAME") [at_ "ID" "ID_7"]]
  ++ tx 4 "SHORT-NAME" "frame7"
  ++ tx 4 "BYTE-LENGTH" "8"
  ++ tx 4 "FRAME-TYPE" "OTHER"
  ++ [nl 4; st "PDU-INSTANCES";
      nl 5; XStart (bs "PDU-INSTANCE") [at_ "ID" "I"];
      nl 6; XEmpty (bs "PDU-REF") [at_ "ID-REF" "P1"]]
  ++ tx 6 "SEQUENCE-NUMBER" "0"
  ++ [nl 5; en "PDU-INSTANCE";
      nl 4; en "PDU-INSTANCES";
      nl 4; st "MANUFACTURER-EXTENSION"]
  ++ tx 5 "MESSAGE_TYPE" "DLT_TYPE_LOG"
  ++ tx 5 "MESSAGE_INFO" "DLT_LOG_WARN"
  ++ tx 5 "APPLICATION_ID" "APP"
  ++ tx 5 "CONTEXT_ID" "CTX"
  ++ [nl 4; en "MANUFACTURER-EXTENSION";
      nl 3; en "FRAME";
      nl 2; en "FRAMES";
      (* SIGNAL *)
      nl 2; st "SIGNALS";
      nl 3; XStart (bs "SIGNAL") [at_ "ID" "SIG1"]]
  ++ tx 4 "SHORT-NAME" "SIG1"
  ++ [nl 4; XEmpty (bs "CODING-REF") [at_ "ID-REF" "COD1"];
      nl 3; en "SIGNAL";
      nl 2; en "SIGNALS";
      (* CODING *)
      nl 2; st "CODINGS";
      nl 3; XStart (bs "CODING") [at_ "ID" "COD1"]]
  ++ tx 4 "SHORT-NAME" "COD1"
  ++ [nl 4; XStart (bs "CODED-TYPE") [at_ "ho:BASE-DATA-TYPE" "A_FLOAT64";
                                      at_ "CATEGORY" "STANDARD-LENGTH-TYPE";
                                      at_ "ENCODING" "UNSIGNED"]]
  ++ tx 5 "BIT-LENGTH" "8"
  ++ [nl 4; en "CODED-TYPE";
      nl 3; en "CODING";
      nl 2; en "CODINGS";
      nl 1; en "ELEMENTS";
      nl 0; en "FIBEX";
      nl 0].

(* the intermediate event list: the elements with the state-changing noise only *)
Definition xnoise_head : list xevent :=
  text_el "SHORT-NAME" (bs "ProjectName")
  ++ text_el "SHORT-NAME" (bs "ECU1")
  ++ [st "MANUFACTURER-EXTENSION"]
  ++ text_el "APPLICATION_ID" (bs "DR")
  ++ text_el "CONTEXT_ID" (bs "TIME")
  ++ [en "MANUFACTURER-EXTENSION"].
Definition xsignal : list xevent :=
  [XStart (bs "SIGNAL") [id_attr_of (bs "SIG1")]] ++ text_el "SHORT-NAME" (bs "SIG1")
  ++ [XEmpty (bs "CODING-REF") [id_ref_attr_of (bs "COD1")]] ++ []
  ++ [XEnd (bs "SIGNAL")].
Definition xcoding : list xevent :=
  [XStart (bs "CODING") [id_attr_of (bs "COD1")]] ++ text_el "SHORT-NAME" (bs "COD1")
  ++ [XStart (bs "CODED-TYPE") [Attr (bs "ho:BASE-DATA-TYPE") (Some (bs "A_FLOAT64"))]] ++ []
  ++ [XEnd (bs "CODED-TYPE")] ++ []
  ++ [XEnd (bs "CODING")].
Definition xmid : list xevent :=
  xnoise_head ++ render_pdu xp1 ++ [] ++ render_frame xf7 ++ [] ++ xsignal ++ [] ++ xcoding ++ [].

Ltac solve_noise :=
  repeat first
    [ apply noise_nil
    | apply noise_inert; [reflexivity|]
    | apply noise_text; [reflexivity|]
    | eapply noise_num; [reflexivity|vm_compute; reflexivity|]
    | apply noise_desc; [reflexivity|]
    | apply noise_ext_start; [reflexivity|]
    | apply noise_ext_end; [reflexivity|] ].

Example c11b_ex_noise_head : noise xnoise_head.
Proof. unfold xnoise_head, text_el, st, en. cbn [app]. solve_noise. Qed.

Example c11b_ex_mid : pad_elements xels xmid.
Proof.
  unfold xels, xmid.
  apply (pes_cons xnoise_head); [exact c11b_ex_noise_head|apply pe_pdu|].
  apply (pes_cons []); [apply noise_nil|apply pe_frame|].
  apply (pes_cons []); [apply noise_nil| |].
  { apply (pe_signal (bs "SIG1") (bs "COD1") (text_el "SHORT-NAME" (bs "SIG1")) []);
      unfold text_el; solve_noise. }
  apply (pes_cons []); [apply noise_nil| |].
  { apply (pe_coding (bs "COD1") (bs "A_FLOAT64") (text_el "SHORT-NAME" (bs "COD1")) [] []);
      unfold text_el; solve_noise. }
  apply pes_nil. apply noise_nil.
Qed.

Ltac solve_sim :=
  first [ apply sim_same
        | apply sim_start; repeat split; vm_compute; reflexivity
        | apply sim_empty; repeat split; vm_compute; reflexivity ].
Ltac solve_pad0 :=
  repeat first
    [ apply pad0_nil
    | apply pad0_text; [solve_sim|reflexivity|]
    | apply pad0_text_end; [solve_sim|reflexivity]
    | apply pad0_keep; [solve_sim|reflexivity|]
    | apply pad0_ins; [reflexivity|] ].

Example c11b_ex_pad0 : pad0 xmid xdoc.
Proof.
  unfold xmid, xdoc, xnoise_head, xsignal, xcoding, render_pdu, render_frame, xp1, xf7, tx, text_el,
    opt_text_el, render_signal_instance, render_pdu_instance, st, en, at_, id_attr_of, id_ref_attr_of,
    instance_id.
  cbn [app flat_map ap_id ap_short_name ap_desc ap_byte_length ap_signals af_id af_short_name
       af_byte_length af_application_id af_context_id af_message_type af_message_info af_pdus
       text_el fst snd].
  change (decimal 8) with (bs "8"). change (decimal 0) with (bs "0").
  solve_pad0.
Qed.

Example c11b_ex_file_pad : Forall2 file_pad xlayout [FileEvents xdoc].
Proof.
  constructor; [|constructor]. constructor. exists xmid, xmid.
  split; [exact c11b_ex_mid|]. split; [apply pad0_refl|exact c11b_ex_pad0].
Qed.

Example c11b_ex_model_ok : model_ok xmodel = true.
Proof. vm_compute. reflexivity. Qed.
Example c11b_ex_elements_ok : elements_ok (concat xlayout) = true.
Proof. vm_compute. reflexivity. Qed.
Example c11b_ex_layout : is_layout_of xmodel xlayout.
Proof. split; [discriminate|apply Permutation_refl]. Qed.

(* what the padded document loads to *)
Definition xframe7 : frame_metadata :=
  mkFrame (bs "frame7") [ mkPdu (Some (bs "speed: ")) [ti_float64] ]
    (Some (bs "APP")) (Some (bs "CTX")) (Some (bs "DLT_TYPE_LOG")) (Some (bs "DLT_LOG_WARN")).

Example c11b_ex_load :
  exists m, gather_fibex_data [FileEvents xdoc] = Some m /\
            gather_fibex_data (files_of xlayout) = Some m /\
            extract_metadata m 7 None = Some xframe7 /\
            extract_metadata m 7 (Some (mkExt false 0 (MLog Info) (bs "APP") (bs "CTX"))) = Some xframe7 /\
            extract_metadata m 7 (Some (mkExt false 0 (MLog Info) (bs "DR") (bs "TIME"))) = None /\
            extract_metadata m 8 None = None.
Proof. eexists. split; [vm_compute; reflexivity|]. vm_compute. repeat split. Qed.

(* a PDU as in tests/dlt-messages.xml: pretty-printed and WITHOUT the SIGNAL-INSTANCES wrapper *)
Definition xp4000 : apdu := mkAPdu (bs "ID_4000") (bs "ID_4000") (Some (bs "timeing: ")) 0 [].
Definition xcore4000 : list xevent :=
  [XStart (bs "PDU") [at_ "ID" "ID_4000"]]
  ++ text_el "SHORT-NAME" (bs "ID_4000") ++ text_el "DESC" (bs "timeing: ")
  ++ text_el "BYTE-LENGTH" (bs "0") ++ text_el "PDU-TYPE" (bs "OTHER") ++ [en "PDU"].
Definition xdoc4000 : list xevent :=
  [nl 3; XStart (bs "PDU") [at_ "ID" "ID_4000"]]
  ++ tx 4 "SHORT-NAME" "ID_4000" ++ tx 4 "DESC" "timeing: "
  ++ tx 4 "BYTE-LENGTH" "0" ++ tx 4 "PDU-TYPE" "OTHER" ++ [nl 3; en "PDU"; nl 0].

Example c11b_ex_lacking : Forall2 file_pad [[ElPdu xp4000]] [FileEvents xdoc4000].
Proof.
  constructor; [|constructor]. constructor.
  exists (render_pdu xp4000 ++ []), xcore4000. split; [|split].
  - apply (pes_cons [] (ElPdu xp4000) (render_pdu xp4000) [] []);
      [apply noise_nil|apply pe_pdu|apply pes_nil; apply noise_nil].
  - unfold xcore4000, render_pdu, xp4000, text_el, opt_text_el, en, at_, id_attr_of.
    cbn [app flat_map ap_id ap_short_name ap_desc ap_byte_length ap_signals].
    change (decimal 0) with (bs "0"). solve_pad0.
  - unfold xcore4000, xdoc4000, tx, text_el, en, at_. cbn [app]. solve_pad0.
Qed.

(* the position restriction of [pad0] is necessary: white space directly behind <SHORT-NAME> is
   taken for the name (and the real name is then skipped as Text) *)
Example c11b_ex_position :
  let good := [XStart (bs "FRAME") [at_ "ID" "F"]] ++ text_el "SHORT-NAME" (bs "name")
              ++ text_el "BYTE-LENGTH" (bs "1") ++ [en "FRAME"] in
  let bad := [XStart (bs "FRAME") [at_ "ID" "F"]; st "SHORT-NAME"; nl 1; XText (Some (bs "name")); en "SHORT-NAME"]
              ++ text_el "BYTE-LENGTH" (bs "1") ++ [en "FRAME"] in
  option_map (fun m => map (fun x => fm_short_name (snd x)) (frame_map m)) (gather_fibex_data [FileEvents good])
    = Some [bs "name"] /\
  option_map (fun m => map (fun x => fm_short_name (snd x)) (frame_map m)) (gather_fibex_data [FileEvents bad])
    = Some [n2b 10 :: repeat (n2b 32) 4].
Proof. vm_compute. split; reflexivity. Qed.
