(* C07 — the blocking reader equals cutting the stream at the declared lengths and parsing each piece,
   for every fragmentation / interruption schedule of the source; truncation; no panic.
   Model: Model/Reader.v (the REPAIRED read.rs; the committed code is refuted by c07_pinned_refuted).
   Spec: Spec/ReaderSpec.v. *)
From DltV.Model Require Import Bytes Nom Dlt Parse Reader.
From DltV.Spec Require Import ReaderSpec.
From DltV.Proofs Require Import ReaderProofs.
Open Scope N_scope.

(* the delivered sequence is independent of the schedule, equals the cuts, and the loop ends *)
Theorem c07_fragmentation : forall sigma s f sh,
  reader_run_default sigma s f sh = (spec_run s f sh, true).
Proof. exact reader_run_default_spec. Qed.
Check c07_fragmentation : forall sigma s f sh,
  reader_run_default sigma s f sh = (spec_run s f sh, true).
Print Assumptions c07_fragmentation.

(* ... for every BufReader capacity (small ones exercise the bypass branch and multiple refills) *)
Theorem c07_fragmentation_cap : forall cap sigma s f sh,
  reader_run_cap cap sigma s f sh = (spec_run s f sh, true).
Proof. exact reader_run_cap_spec. Qed.
Check c07_fragmentation_cap : forall cap sigma s f sh,
  reader_run_cap cap sigma s f sh = (spec_run s f sh, true).
Print Assumptions c07_fragmentation_cap.

(* the reader adds no panic of its own, whatever the bytes (including declared lengths below 4) *)
Theorem c07_no_panic : forall sigma s f sh,
  (forall bs, dlt_message bs f sh <> PPanic) ->
  ~ In OPanic (fst (reader_run_default sigma s f sh)).
Proof. exact reader_run_default_no_panic. Qed.
Check c07_no_panic : forall sigma s f sh,
  (forall bs, dlt_message bs f sh <> PPanic) ->
  ~ In OPanic (fst (reader_run_default sigma s f sh)).
Print Assumptions c07_no_panic.

(* debug_assert!(total_len <= self.buffer.len()) holds for every declared length *)
Theorem c07_scratch_fits : forall sh v, hdr_len sh <= len v ->
  storage_len sh + declared_len sh v <= len new_scratch.
Proof. exact total_len_fits. Qed.
Check c07_scratch_fits : forall sh v, hdr_len sh <= len v ->
  storage_len sh + declared_len sh v <= len new_scratch.
Print Assumptions c07_scratch_fits.

(* the pieces: laid out from offset 0, one behind the other, inside the stream, each at least a header *)
Theorem c07_cuts_layout : forall s sh,
  let cuts := spec_cuts s sh in
  Forall (fun c => hdr_len sh <= snd c /\ fst c + snd c <= len s) cuts
  /\ (forall i c d, nth_error cuts i = Some c -> nth_error cuts (S i) = Some d -> fst d = fst c + snd c)
  /\ (forall c, nth_error cuts 0 = Some c -> fst c = 0).
Proof. exact spec_cuts_layout. Qed.
Check c07_cuts_layout : forall s sh,
  let cuts := spec_cuts s sh in
  Forall (fun c => hdr_len sh <= snd c /\ fst c + snd c <= len s) cuts
  /\ (forall i c d, nth_error cuts i = Some c -> nth_error cuts (S i) = Some d -> fst d = fst c + snd c)
  /\ (forall c, nth_error cuts 0 = Some c -> fst c = 0).
Print Assumptions c07_cuts_layout.

(* the i-th outcome is a function of the bytes of the i-th piece alone; behind the pieces comes nothing
   or one Unrecoverable error; a panic of dlt_message ends the sequence *)
Theorem c07_run_by_cuts : forall s f sh,
  exists tail, (tail = [] \/ tail = [OErr EUnrecoverable])
    /\ spec_run s f sh
       = until_panic (map (fun c => piece_outcome f sh (piece_at s c)) (spec_cuts s sh) ++ tail).
Proof. exact spec_run_by_cuts. Qed.
Check c07_run_by_cuts : forall s f sh,
  exists tail, (tail = [] \/ tail = [OErr EUnrecoverable])
    /\ spec_run s f sh
       = until_panic (map (fun c => piece_outcome f sh (piece_at s c)) (spec_cuts s sh) ++ tail).
Print Assumptions c07_run_by_cuts.

(* truncation after k bytes: the pieces are those of the full stream that end at or before k, their
   outcomes are delivered unchanged, and what follows is end-of-stream or one Unrecoverable error —
   never a message built from a cut piece *)
Theorem c07_truncation : forall s k f sh,
  let done := filter (cut_within k) (spec_cuts s sh) in
  spec_cuts (firstn (N.to_nat k) s) sh = done
  /\ exists tail, (tail = [] \/ tail = [OErr EUnrecoverable])
     /\ spec_run (firstn (N.to_nat k) s) f sh = firstn (length done) (spec_run s f sh) ++ tail.
Proof. exact spec_truncation. Qed.
Check c07_truncation : forall s k f sh,
  let done := filter (cut_within k) (spec_cuts s sh) in
  spec_cuts (firstn (N.to_nat k) s) sh = done
  /\ exists tail, (tail = [] \/ tail = [OErr EUnrecoverable])
     /\ spec_run (firstn (N.to_nat k) s) f sh = firstn (length done) (spec_run s f sh) ++ tail.
Print Assumptions c07_truncation.

Theorem c07_truncation_reader : forall sigma sigma' s k f sh,
  exists tail, (tail = [] \/ tail = [OErr EUnrecoverable])
    /\ reader_run_default sigma (firstn (N.to_nat k) s) f sh
       = (firstn (length (filter (cut_within k) (spec_cuts s sh))) (fst (reader_run_default sigma' s f sh)) ++ tail,
          true).
Proof. exact reader_truncation. Qed.
Check c07_truncation_reader : forall sigma sigma' s k f sh,
  exists tail, (tail = [] \/ tail = [OErr EUnrecoverable])
    /\ reader_run_default sigma (firstn (N.to_nat k) s) f sh
       = (firstn (length (filter (cut_within k) (spec_cuts s sh))) (fst (reader_run_default sigma' s f sh)) ++ tail,
          true).
Print Assumptions c07_truncation_reader.

(* the committed (pre-repair) reader panics on a declared length below the header length *)
Theorem c07_pinned_refuted :
  reader_run_pinned [] [x00; x00; x00; x02] None false = ([OPanic], true).
Proof. exact reader_run_pinned_panics. Qed.
Check c07_pinned_refuted :
  reader_run_pinned [] [x00; x00; x00; x02] None false = ([OPanic], true).
Print Assumptions c07_pinned_refuted.

(* ---------- examples ---------- *)
(* ex_m1 (8 bytes), ex_m2 (10 bytes), ex_sh (storage header), kinds: Spec/ReaderSpec.v;
   kinds: 0 = message, 2 = ParsingHickup, 3 = Unrecoverable, 4 = panic *)

(* full reads; one byte at a time with interruptions; mixed short reads *)
Example c07_example_schedules :
  let s := ex_m1 ++ ex_m2 in
  let r := reader_run_default [] s None false in
  reader_run_default [1; 0; 1; 1; 0; 0; 1; 1; 1; 1; 1; 1; 1; 1; 0; 1; 1; 1; 1; 1; 1; 1] s None false = r
  /\ reader_run_default [3; 0; 0; 2; 5; 0; 1; 100] s None false = r
  /\ reader_run_cap 3 [2; 0; 7] s None false = r
  /\ kinds r = ([0; 0], true)
  /\ spec_cuts s false = [(0, 8); (8, 10)].
Proof. vm_compute. repeat split; reflexivity. Qed.

Example c07_example_storage_header :
  let s := ex_sh ++ ex_m1 ++ ex_sh ++ ex_m2 in
  kinds (reader_run_default [5; 0; 30; 1] s None true) = ([0; 0], true)
  /\ spec_cuts s true = [(0, 24); (24, 26)].
Proof. vm_compute. split; reflexivity. Qed.

(* a declared length of 2: an error, and the reader goes on behind the 4 header bytes *)
Example c07_example_short_length :
  let s := ex_m1 ++ [x00; x00; x00; x02] ++ ex_m2 in
  kinds (reader_run_default [1; 0; 2] s None false) = ([0; 2; 0], true)
  /\ kinds (reader_run_pinned [1; 0; 2] s None false) = ([0; 4], true).
Proof. vm_compute. split; reflexivity. Qed.

(* truncation inside the second message: behind its header (error), inside its header (end of stream) *)
Example c07_example_truncated :
  kinds (reader_run_default [4; 0; 1] (ex_m1 ++ firstn 7 ex_m2) None false) = ([0; 3], true)
  /\ kinds (reader_run_default [4; 0; 1] (ex_m1 ++ firstn 3 ex_m2) None false) = ([0], true)
  /\ kinds (reader_run_default [] (ex_m1 ++ ex_m2) None false) = ([0; 0], true).
Proof. vm_compute. repeat split; reflexivity. Qed.

(* the hypothesis of c07_no_panic is about dlt_message alone; this instance shows the conclusion on a
   stream of hostile length fields *)
Example c07_example_no_panic :
  ~ In OPanic (fst (reader_run_default [1; 0; 1] [x00; x00; x00; x00; xff; xff; x00; x03; x20; x00; xff; xff] None false)).
Proof. vm_compute. intros [H|[H|[H|[]]]]; discriminate. Qed.
