(* C18 — "For every argument, converting to the real (logical) value never panics; it yields
   nothing unless the argument is a fixed-point kind with fixed-point data and an integer value;
   and whenever the physical value times the quantization (in double precision, truncated toward
   zero) is non-negative and its sum with the offset lies in 0 .. 2^63, the result is exactly
   that sum."

   [to_real_value] (Model/Float.v) is Argument::to_real_value with the `+` of log_v repaired to
   `wrapping_add` (F8); [to_real_value_pinned] is the code with the overflow-checked `+`.
   The statement is TRUE of the repaired code ([c18_no_panic], [c18_none], [c18_some],
   [c18_value]) and FALSE of the code with the checked `+` ([c18_pinned_refuted]:
   value 1000, quantization 1.0, offset -200; [c18_pinned_panic_neg]: with a negative offset
   it panics exactly when the intended result is non-negative).

   Floats: [spec_float] of the standard library (Floats.SpecFloat), binary64 = prec 53, emax 1024.
     v  = [int_to_f64 n]                    `n as f64`, round to nearest even (exact below 2^53: [c18_int_exact])
     q  = [fp_quant_f64 fp]                 the f32 quantization decoded from its bits and widened (exact: [c18_f32_exact])
     p  = [f64_mul v q]                     the double-precision product
     t  = [sf_trunc p]                      its UNSATURATED truncation toward zero ([c18_trunc]); none for NaN/inf
   In [c18_value] the hypothesis  -2^63 <= offset  holds for every i32/i64 offset
   ([c18_offset_range]); the model's offsets are unbounded Z, hence it is stated. *)
From Coq Require Import ZArith NArith Floats.SpecFloat.
From DltV.Model Require Import Bytes RustInt Dlt Float.
From DltV.Proofs Require Import RealValue.
Open Scope N_scope.

(* ---------- never panics ---------- *)
Theorem c18_no_panic : forall a, to_real_value a <> Panic.
Proof. exact to_real_value_no_panic. Qed.
Check c18_no_panic : forall a, to_real_value a <> Panic.
Print Assumptions c18_no_panic.

(* ---------- yields nothing unless fixed-point kind + fixed-point data + integer value ---------- *)
Theorem c18_none : forall a, real_applicable a = false -> to_real_value a = Val None.
Proof. exact to_real_value_none. Qed.
Check c18_none : forall a, real_applicable a = false -> to_real_value a = Val None.
Print Assumptions c18_none.

(* ... and conversely yields a u64 in that case *)
Theorem c18_some : forall a, real_applicable a = true ->
  exists n, to_real_value a = Val (Some n) /\ n < 2 ^ 64.
Proof. exact to_real_value_some. Qed.
Check c18_some : forall a, real_applicable a = true ->
  exists n, to_real_value a = Val (Some n) /\ n < 2 ^ 64.
Print Assumptions c18_some.

(* [real_applicable] spelled out *)
Theorem c18_applicable : forall a,
  real_applicable a =
  (match ti_kind_of (a_ti a) with KSignedFixed _ | KUnsignedFixed _ => true | _ => false end) &&
  (match a_fp a with Some _ => true | None => false end) &&
  (match a_value a with
   | VI8 _ | VI16 _ | VI32 _ | VI64 _ | VU8 _ | VU16 _ | VU32 _ | VU64 _ => true
   | VBool _ | VU128 _ | VI128 _ | VF32 _ | VF64 _ | VString _ | VRaw _ => false
   end).
Proof. intros a. reflexivity. Qed.
Check c18_applicable : forall a,
  real_applicable a =
  (match ti_kind_of (a_ti a) with KSignedFixed _ | KUnsignedFixed _ => true | _ => false end) &&
  (match a_fp a with Some _ => true | None => false end) &&
  (match a_value a with
   | VI8 _ | VI16 _ | VI32 _ | VI64 _ | VU8 _ | VU16 _ | VU32 _ | VU64 _ => true
   | VBool _ | VU128 _ | VI128 _ | VF32 _ | VF64 _ | VString _ | VRaw _ => false
   end).
Print Assumptions c18_applicable.

(* ---------- the value ---------- *)
Theorem c18_value : forall a fp v t,
  is_fixed_point (ti_kind_of (a_ti a)) = true -> a_fp a = Some fp ->
  value_as_f64 (a_value a) = Some v ->
  sf_trunc (f64_mul v (fp_quant_f64 fp)) = Some t ->
  (- 2 ^ 63 <= fp_off (fp_offset fp))%Z ->
  (0 <= t)%Z -> (0 <= t + fp_off (fp_offset fp) < 2 ^ 63)%Z ->
  to_real_value a = Val (Some (Z.to_N (t + fp_off (fp_offset fp)))).
Proof. exact to_real_value_value. Qed.
Check c18_value : forall a fp v t,
  is_fixed_point (ti_kind_of (a_ti a)) = true -> a_fp a = Some fp ->
  value_as_f64 (a_value a) = Some v ->
  sf_trunc (f64_mul v (fp_quant_f64 fp)) = Some t ->
  (- 2 ^ 63 <= fp_off (fp_offset fp))%Z ->
  (0 <= t)%Z -> (0 <= t + fp_off (fp_offset fp) < 2 ^ 63)%Z ->
  to_real_value a = Val (Some (Z.to_N (t + fp_off (fp_offset fp)))).
Print Assumptions c18_value.

(* every offset the type can hold (i32 / i64) satisfies the lower bound used above *)
Theorem c18_offset_range : forall o,
  (match o with FI32 z => in_signed 32 z | FI64 z => in_signed 64 z end) = true ->
  (- 2 ^ 63 <= fp_off o)%Z.
Proof. exact in_signed_off_lo. Qed.
Check c18_offset_range : forall o,
  (match o with FI32 z => in_signed 32 z | FI64 z => in_signed 64 z end) = true ->
  (- 2 ^ 63 <= fp_off o)%Z.
Print Assumptions c18_offset_range.

(* outside the guard too, the result is the wrapped sum of the saturated cast and the
   sign-extended offset *)
Theorem c18_formula : forall a fp v,
  is_fixed_point (ti_kind_of (a_ti a)) = true -> a_fp a = Some fp ->
  value_as_f64 (a_value a) = Some v ->
  to_real_value a =
  Val (Some ((f64_to_u64 (f64_mul v (fp_quant_f64 fp)) + of_signed 64 (fp_off (fp_offset fp))) mod 2 ^ 64)).
Proof. exact to_real_value_applicable. Qed.
Check c18_formula : forall a fp v,
  is_fixed_point (ti_kind_of (a_ti a)) = true -> a_fp a = Some fp ->
  value_as_f64 (a_value a) = Some v ->
  to_real_value a =
  Val (Some ((f64_to_u64 (f64_mul v (fp_quant_f64 fp)) + of_signed 64 (fp_off (fp_offset fp))) mod 2 ^ 64)).
Print Assumptions c18_formula.

(* ---------- the code with the overflow-checked `+` ---------- *)
Theorem c18_pinned_refuted : exists a, to_real_value_pinned a = Panic.
Proof.
  exists (mkArg (mkTI (KUnsignedFixed W32) SAscii false false) None None
            (Some (mkFP 1065353216 (FI32 (-200)))) (VU32 1000)).
  vm_compute. reflexivity.
Qed.
Check c18_pinned_refuted : exists a, to_real_value_pinned a = Panic.
Print Assumptions c18_pinned_refuted.

Theorem c18_pinned_panic_neg : forall a fp v,
  is_fixed_point (ti_kind_of (a_ti a)) = true -> a_fp a = Some fp ->
  value_as_f64 (a_value a) = Some v ->
  (- 2 ^ 63 <= fp_off (fp_offset fp) < 0)%Z ->
  (to_real_value_pinned a = Panic <->
   (0 <= Z.of_N (f64_to_u64 (f64_mul v (fp_quant_f64 fp))) + fp_off (fp_offset fp))%Z).
Proof. exact to_real_value_pinned_panic_neg. Qed.
Check c18_pinned_panic_neg : forall a fp v,
  is_fixed_point (ti_kind_of (a_ti a)) = true -> a_fp a = Some fp ->
  value_as_f64 (a_value a) = Some v ->
  (- 2 ^ 63 <= fp_off (fp_offset fp) < 0)%Z ->
  (to_real_value_pinned a = Panic <->
   (0 <= Z.of_N (f64_to_u64 (f64_mul v (fp_quant_f64 fp))) + fp_off (fp_offset fp))%Z).
Print Assumptions c18_pinned_panic_neg.

Theorem c18_pinned_agrees : forall a,
  to_real_value_pinned a <> Panic -> to_real_value_pinned a = to_real_value a.
Proof. exact to_real_value_pinned_agrees. Qed.
Check c18_pinned_agrees : forall a,
  to_real_value_pinned a <> Panic -> to_real_value_pinned a = to_real_value a.
Print Assumptions c18_pinned_agrees.

(* ---------- what the float terms mean ---------- *)

(* [sf_trunc] of (-1)^s * m * 2^e is  (-1)^s * n  with n = m * 2^e for e >= 0 and
   n * 2^-e <= m < (n + 1) * 2^-e for e < 0: the integer part, toward zero *)
Theorem c18_trunc : forall s m e,
  exists n, sf_trunc (S754_finite s m e) = Some (cond_Zopp s n) /\ (0 <= n)%Z /\
    ((0 <= e)%Z -> n = (Zpos m * 2 ^ e)%Z) /\
    ((e < 0)%Z -> (n * 2 ^ (- e) <= Zpos m < (n + 1) * 2 ^ (- e))%Z).
Proof. exact sf_trunc_finite. Qed.
Check c18_trunc : forall s m e,
  exists n, sf_trunc (S754_finite s m e) = Some (cond_Zopp s n) /\ (0 <= n)%Z /\
    ((0 <= e)%Z -> n = (Zpos m * 2 ^ e)%Z) /\
    ((e < 0)%Z -> (n * 2 ^ (- e) <= Zpos m < (n + 1) * 2 ^ (- e))%Z).
Print Assumptions c18_trunc.

(* "p finite" = [sf_trunc p] is defined *)
Theorem c18_trunc_none : forall p,
  sf_trunc p = None <-> (p = S754_nan \/ exists s, p = S754_infinity s).
Proof. exact sf_trunc_none. Qed.
Check c18_trunc_none : forall p,
  sf_trunc p = None <-> (p = S754_nan \/ exists s, p = S754_infinity s).
Print Assumptions c18_trunc_none.

(* the cast `as u64`: clamp the truncation to 0 .. 2^64-1; NaN and -inf to 0, +inf to 2^64-1 *)
Theorem c18_cast : forall p,
  match sf_trunc p with
  | Some t => f64_to_u64 p = Z.to_N (Z.max 0 (Z.min t (2 ^ 64 - 1)))
  | None => f64_to_u64 p = match p with S754_infinity false => 2 ^ 64 - 1 | _ => 0 end
  end.
Proof. exact f64_to_u64_cases. Qed.
Check c18_cast : forall p,
  match sf_trunc p with
  | Some t => f64_to_u64 p = Z.to_N (Z.max 0 (Z.min t (2 ^ 64 - 1)))
  | None => f64_to_u64 p = match p with S754_infinity false => 2 ^ 64 - 1 | _ => 0 end
  end.
Print Assumptions c18_cast.

(* `n as f64` is exact below 2^53 in magnitude (all 8/16/32-bit values) *)
Theorem c18_int_exact : forall z, (Z.abs z < 2 ^ 53)%Z -> sf_trunc (int_to_f64 z) = Some z.
Proof. exact int_to_f64_exact. Qed.
Check c18_int_exact : forall z, (Z.abs z < 2 ^ 53)%Z -> sf_trunc (int_to_f64 z) = Some z.
Print Assumptions c18_int_exact.

(* `q as f64` for q : f32 is the same number m * 2^e, in canonical binary64 form *)
Theorem c18_f32_exact : forall b s m e,
  f32_of_bits b = S754_finite s m e ->
  exists m' e', f32_to_f64 (f32_of_bits b) = S754_finite s m' e' /\
    (e' <= e)%Z /\ Zpos m' = (Zpos m * 2 ^ (e - e'))%Z /\ bounded prec64 emax64 m' e' = true.
Proof. exact f32_to_f64_exact. Qed.
Check c18_f32_exact : forall b s m e,
  f32_of_bits b = S754_finite s m e ->
  exists m' e', f32_to_f64 (f32_of_bits b) = S754_finite s m' e' /\
    (e' <= e)%Z /\ Zpos m' = (Zpos m * 2 ^ (e - e'))%Z /\ bounded prec64 emax64 m' e' = true.
Print Assumptions c18_f32_exact.

(* ---------- examples (by evaluation) ---------- *)
Definition ex_arg (k : ti_kind) (v : value) (q : N) (o : fp_value) : argument :=
  mkArg (mkTI k SAscii false false) None None (Some (mkFP q o)) v.

(* f32 bit patterns: 0.5 = 0x3F000000, 1.0 = 0x3F800000, -1.0 = 0xBF800000, 0.01 = 0x3C23D70A,
   0.1 = 0x3DCCCCCD, NaN = 0x7FC00000, +inf = 0x7F800000, -inf = 0xFF800000,
   least subnormal = 1, greatest finite = 0x7F7FFFFF *)

(* 1000 * 0.5 - 200 = 300;  1000 * 1.0 - 200 = 800 (the pinned code panics on both) *)
Example c18_ex_half :
  to_real_value (ex_arg (KUnsignedFixed W32) (VU32 1000) 1056964608 (FI32 (-200))) = Val (Some 300) /\
  to_real_value (ex_arg (KUnsignedFixed W32) (VU32 1000) 1065353216 (FI32 (-200))) = Val (Some 800) /\
  to_real_value_pinned (ex_arg (KUnsignedFixed W32) (VU32 1000) 1056964608 (FI32 (-200))) = Panic /\
  to_real_value_pinned (ex_arg (KUnsignedFixed W32) (VU32 1000) 1065353216 (FI32 (-200))) = Panic.
Proof. repeat split; vm_compute; reflexivity. Qed.

(* a non-negative offset does not overflow; a negative offset with a negative intended result
   does not panic either but yields 2^64 - 100 in both variants *)
Example c18_ex_pinned_ok :
  to_real_value_pinned (ex_arg (KUnsignedFixed W32) (VU32 1000) 1065353216 (FI32 200)) = Val (Some 1200) /\
  to_real_value_pinned (ex_arg (KSignedFixed W32) (VI32 100) 1065353216 (FI32 (-200)))
    = Val (Some 18446744073709551516) /\
  to_real_value (ex_arg (KSignedFixed W32) (VI32 100) 1065353216 (FI32 (-200)))
    = Val (Some 18446744073709551516).
Proof. repeat split; vm_compute; reflexivity. Qed.

(* the example of the doc comment in dlt.rs: 7785 * 0.01 - 50 = 27.85 -> 27 *)
Example c18_ex_celsius :
  to_real_value (ex_arg (KSignedFixed W32) (VI32 7785) 1008981770 (FI32 (-50))) = Val (Some 27).
Proof. vm_compute. reflexivity. Qed.

(* the hypotheses of [c18_value] hold for it, with t = 77 *)
Example c18_ex_value_hyps :
  let a := ex_arg (KSignedFixed W32) (VI32 7785) 1008981770 (FI32 (-50)) in
  let fp := mkFP 1008981770 (FI32 (-50)) in
  is_fixed_point (ti_kind_of (a_ti a)) = true /\ a_fp a = Some fp /\
  value_as_f64 (a_value a) = Some (int_to_f64 7785) /\
  sf_trunc (f64_mul (int_to_f64 7785) (fp_quant_f64 fp)) = Some 77%Z /\
  (- 2 ^ 63 <= fp_off (fp_offset fp))%Z /\ (0 <= 77)%Z /\
  (0 <= 77 + fp_off (fp_offset fp) < 2 ^ 63)%Z /\
  Z.to_N (77 + fp_off (fp_offset fp)) = 27.
Proof. vm_compute. repeat split; reflexivity || discriminate. Qed.

(* 0.1f32 is slightly above 0.1:  10 * 0.1f32 = 1.0000000149 -> 1,  3 * 0.1f32 -> 0 *)
Example c18_ex_tenth :
  to_real_value (ex_arg (KUnsignedFixed W64) (VU32 10) 1036831949 (FI64 0)) = Val (Some 1) /\
  to_real_value (ex_arg (KUnsignedFixed W64) (VU32 3) 1036831949 (FI64 0)) = Val (Some 0).
Proof. split; vm_compute; reflexivity. Qed.

(* negative value times negative quantization: -1000 * -0.5 - 200 = 300 *)
Example c18_ex_neg_neg :
  to_real_value (ex_arg (KSignedFixed W64) (VI32 (-1000)) 3204448256 (FI32 (-200))) = Val (Some 300).
Proof. vm_compute. reflexivity. Qed.

(* u64::MAX as f64 = 2^64, which saturates back to u64::MAX; adding 5 wraps to 4 *)
Example c18_ex_u64_max :
  to_real_value (ex_arg (KUnsignedFixed W64) (VU64 18446744073709551615) 1065353216 (FI64 0))
    = Val (Some 18446744073709551615) /\
  to_real_value (ex_arg (KUnsignedFixed W64) (VU64 18446744073709551615) 1065353216 (FI64 5))
    = Val (Some 4).
Proof. split; vm_compute; reflexivity. Qed.

(* i64::MIN: negative products cast to 0; times -1.0 gives 2^63, plus 7 *)
Example c18_ex_i64_min :
  to_real_value (ex_arg (KSignedFixed W64) (VI64 (-9223372036854775808)) 1065353216 (FI64 7)) = Val (Some 7) /\
  to_real_value (ex_arg (KSignedFixed W64) (VI64 (-9223372036854775808)) 3212836864 (FI64 7))
    = Val (Some 9223372036854775815).
Proof. split; vm_compute; reflexivity. Qed.

(* NaN -> 0; +inf -> u64::MAX (then + 7 wraps to 6); -inf -> 0; 0 * inf = NaN -> 0 *)
Example c18_ex_nan_inf :
  to_real_value (ex_arg (KSignedFixed W64) (VI64 5) 2143289344 (FI64 7)) = Val (Some 7) /\
  to_real_value (ex_arg (KSignedFixed W64) (VI64 5) 2139095040 (FI64 7)) = Val (Some 6) /\
  to_real_value (ex_arg (KSignedFixed W64) (VI64 5) 4286578688 (FI64 7)) = Val (Some 7) /\
  to_real_value (ex_arg (KSignedFixed W64) (VI64 0) 2139095040 (FI64 7)) = Val (Some 7).
Proof. repeat split; vm_compute; reflexivity. Qed.

(* least subnormal f32 (2^-149) times u64::MAX truncates to 0; greatest finite f32 saturates *)
Example c18_ex_subnormal_huge :
  to_real_value (ex_arg (KUnsignedFixed W64) (VU64 18446744073709551615) 1 (FI64 7)) = Val (Some 7) /\
  to_real_value (ex_arg (KUnsignedFixed W64) (VU64 18446744073709551615) 2139095039 (FI64 7)) = Val (Some 6).
Proof. split; vm_compute; reflexivity. Qed.

(* `u64 as f64` rounds to nearest, ties to even: 2^53+1 -> 2^53, 2^53+3 -> 2^53+4 *)
Example c18_ex_ties_even :
  to_real_value (ex_arg (KUnsignedFixed W64) (VU64 9007199254740993) 1065353216 (FI64 0))
    = Val (Some 9007199254740992) /\
  to_real_value (ex_arg (KUnsignedFixed W64) (VU64 9007199254740995) 1065353216 (FI64 0))
    = Val (Some 9007199254740996).
Proof. split; vm_compute; reflexivity. Qed.

(* not applicable: 128-bit value, non-fixed-point kind, no fixed-point data, float value *)
Example c18_ex_none :
  to_real_value (ex_arg (KUnsignedFixed W64) (VU128 3) 1065353216 (FI64 0)) = Val None /\
  to_real_value (ex_arg (KSigned BL32) (VI32 3) 1065353216 (FI64 0)) = Val None /\
  to_real_value (mkArg (mkTI (KSignedFixed W32) SAscii false false) None None None (VI32 3)) = Val None /\
  to_real_value (ex_arg (KSignedFixed W32) (VF32 1065353216) 1065353216 (FI32 0)) = Val None /\
  real_applicable (ex_arg (KUnsignedFixed W64) (VU128 3) 1065353216 (FI64 0)) = false /\
  real_applicable (ex_arg (KUnsignedFixed W64) (VU64 3) 1065353216 (FI64 0)) = true.
Proof. repeat split; vm_compute; reflexivity. Qed.

(* the kind's sign and width need not match the value's: still converted *)
Example c18_ex_mismatch :
  to_real_value (ex_arg (KSignedFixed W32) (VU8 200) 1056964608 (FI64 (-1))) = Val (Some 99).
Proof. vm_compute. reflexivity. Qed.
