(* C13b — the evaluation shortcut the correspondence run takes for very long type lists is sound: the function
   the extracted model evaluates for op 13 ([Run.construct_for_run]) is [construct_arguments] on every input. *)
From DltV.Model Require Import Bytes RustInt Utf8 Nom Dlt Parse.
From DltV.Model Require Run.
From DltV.Spec Require NonVerbose.
From DltV.Proofs Require Import NonVerboseProofs.
Open Scope N_scope.

Theorem c13b_run_shortcut : forall e tys d,
  Run.construct_for_run e tys d = construct_arguments e tys d.
Proof.
  intros e tys d. unfold Run.construct_for_run.
  destruct (2000 <? len tys); [symmetry; apply construct_refines | reflexivity].
Qed.
Check c13b_run_shortcut : forall e tys d,
  Run.construct_for_run e tys d = construct_arguments e tys d.
Print Assumptions c13b_run_shortcut.

(* op 44 (a complete payload followed by gigabytes of zero bytes) is evaluated on the complete payload alone:
   trailing bytes are ignored (this is C13.c13_trailing at the instance the run uses) *)
Theorem c13b_big_trailing : forall e tys d args n,
  construct_arguments e tys d = Some args ->
  construct_arguments e tys (d ++ repeat x00 n) = Some args.
Proof. intros e tys d args n H. exact (construct_trailing e tys d args H (repeat x00 n)). Qed.
Check c13b_big_trailing : forall e tys d args n,
  construct_arguments e tys d = Some args ->
  construct_arguments e tys (d ++ repeat x00 n) = Some args.
Print Assumptions c13b_big_trailing.
