(* C06 — storage-header resync skips exactly the bytes before the first pattern 'DLT\x01'. *)
From DltV.Model Require Import Bytes Nom Dlt Parse.
From DltV.Proofs Require Import Search Resync.
Open Scope N_scope.

(* [pattern_at bs k]: the four bytes 'D','L','T',0x01 stand at offset k of bs
   (Definition pattern_at bs k := exists r, skipn k bs = pat_DLT1 ++ r). *)

(* ---------- the search ---------- *)
Theorem c06_search : forall bs,
  match forward_to_next_storage_header bs with
  | Some (k, r) => r = skipn (N.to_nat k) bs /\ pattern_at bs (N.to_nat k)
                   /\ forall j, (j < N.to_nat k)%nat -> ~ pattern_at bs j
  | None => forall j, ~ pattern_at bs j
  end.
Proof. exact forward_spec. Qed.
Check c06_search : forall bs,
  match forward_to_next_storage_header bs with
  | Some (k, r) => r = skipn (N.to_nat k) bs /\ pattern_at bs (N.to_nat k)
                   /\ forall j, (j < N.to_nat k)%nat -> ~ pattern_at bs j
  | None => forall j, ~ pattern_at bs j
  end.
Print Assumptions c06_search.

(* converse: if the pattern occurs anywhere, the search succeeds (at or before that occurrence) *)
Theorem c06_search_complete : forall bs j,
  pattern_at bs j ->
  exists k r, forward_to_next_storage_header bs = Some (k, r) /\ (N.to_nat k <= j)%nat.
Proof. exact forward_some_of_pattern. Qed.
Check c06_search_complete : forall bs j,
  pattern_at bs j ->
  exists k r, forward_to_next_storage_header bs = Some (k, r) /\ (N.to_nat k <= j)%nat.
Print Assumptions c06_search_complete.

(* both as equivalences: the result is characterised completely *)
Theorem c06_search_some_iff : forall bs k r,
  forward_to_next_storage_header bs = Some (k, r) <->
  r = skipn (N.to_nat k) bs /\ pattern_at bs (N.to_nat k) /\
  forall j, (j < N.to_nat k)%nat -> ~ pattern_at bs j.
Proof. exact forward_iff. Qed.
Check c06_search_some_iff : forall bs k r,
  forward_to_next_storage_header bs = Some (k, r) <->
  r = skipn (N.to_nat k) bs /\ pattern_at bs (N.to_nat k) /\
  forall j, (j < N.to_nat k)%nat -> ~ pattern_at bs j.
Print Assumptions c06_search_some_iff.

Theorem c06_search_none_iff : forall bs,
  forward_to_next_storage_header bs = None <-> forall j, ~ pattern_at bs j.
Proof. exact forward_none_iff. Qed.
Check c06_search_none_iff : forall bs,
  forward_to_next_storage_header bs = None <-> forall j, ~ pattern_at bs j.
Print Assumptions c06_search_none_iff.

(* ---------- junk in front of a storage header is skipped ----------
   x is anything that starts with the pattern and has at least the 16 bytes of a storage header
   (e.g. message_bytes m ++ rest for a message with storage header).  The junk may end in a partial
   pattern ('D', 'DL', 'DLT'): the pattern is unbordered, so no occurrence straddles the boundary.
   The WHOLE result is equal: message, remainder, and every error/incomplete outcome. *)
Theorem c06_junk : forall junk x f,
  (forall j, ~ pattern_at junk j) -> (exists r, x = pat_DLT1 ++ r) -> 16 <= len x ->
  dlt_message (junk ++ x) f true = dlt_message x f true.
Proof. exact junk_skipped. Qed.
Check c06_junk : forall junk x f,
  (forall j, ~ pattern_at junk j) -> (exists r, x = pat_DLT1 ++ r) -> 16 <= len x ->
  dlt_message (junk ++ x) f true = dlt_message x f true.
Print Assumptions c06_junk.

(* pattern-free leftover (the junk behind the last message): no storage header is found, the
   standard-header parser sees an empty input and asks for more *)
Theorem c06_trailing_junk : forall junk f,
  (forall j, ~ pattern_at junk j) ->
  dlt_message junk f true = if len junk <? 16 then PIncomplete None else PIncomplete (Some 1).
Proof. exact junk_only. Qed.
Check c06_trailing_junk : forall junk f,
  (forall j, ~ pattern_at junk j) ->
  dlt_message junk f true = if len junk <? 16 then PIncomplete None else PIncomplete (Some 1).
Print Assumptions c06_trailing_junk.

(* ---------- a stream of messages with junk between them is recovered completely and in order ----------
   A piece is (junk, x, pm): pattern-free junk, bytes x that start with the pattern and parse to pm
   with exactly the continuation left, whatever follows (what C01 gives for x = message_bytes m).
   stream_bytes [(j1,x1,_); ...; (jn,xn,_)] tail = j1 ++ x1 ++ ... ++ jn ++ xn ++ tail. *)
Theorem c06_stream : forall f l jn fuel,
  Forall (good_piece f) l -> (forall k, ~ pattern_at jn k) -> (length l < fuel)%nat ->
  parse_all fuel (stream_bytes l jn) f true = (map snd l, jn).
Proof. exact stream_recovered. Qed.
Check c06_stream : forall f l jn fuel,
  Forall (good_piece f) l -> (forall k, ~ pattern_at jn k) -> (length l < fuel)%nat ->
  parse_all fuel (stream_bytes l jn) f true = (map snd l, jn).
Print Assumptions c06_stream.

(* the same for serialised messages; the third conjunct of the hypothesis is the conclusion of the
   round trip C01 (res m = Item m for f = None; with C09, res m = the marker or Item m) *)
Theorem c06_stream_messages : forall f (res : message -> parsed_message) l jn fuel,
  (forall j m, In (j, m) l ->
     (forall k, ~ pattern_at j k) /\ m_storage m <> None /\
     (forall tail, dlt_message (message_bytes m ++ tail) f true = POk (res m) tail)) ->
  (forall k, ~ pattern_at jn k) -> (length l < fuel)%nat ->
  parse_all fuel (messages_bytes l jn) f true = (map (fun p => res (snd p)) l, jn).
Proof. exact messages_recovered. Qed.
Check c06_stream_messages : forall f (res : message -> parsed_message) l jn fuel,
  (forall j m, In (j, m) l ->
     (forall k, ~ pattern_at j k) /\ m_storage m <> None /\
     (forall tail, dlt_message (message_bytes m ++ tail) f true = POk (res m) tail)) ->
  (forall k, ~ pattern_at jn k) -> (length l < fuel)%nat ->
  parse_all fuel (messages_bytes l jn) f true = (map (fun p => res (snd p)) l, jn).
Print Assumptions c06_stream_messages.

(* ---------- non-vacuity ---------- *)
(* search: junk 'DLT' (a partial pattern) in front of the pattern; absence *)
Example c06_ex_search :
  forward_to_next_storage_header [x44; x4c; x54; x44; x4c; x54; x01; xff] = Some (3, [x44; x4c; x54; x01; xff])
  /\ forward_to_next_storage_header [x44; x4c; x54; x00; x01] = None
  /\ pattern_at [x44; x4c; x54; x44; x4c; x54; x01; xff] 3.
Proof. split; [reflexivity|]. split; [reflexivity|]. now exists [xff]. Qed.

(* Resync.ex_bytes = message_bytes ex_msg: storage header + standard header + non-verbose payload, 24 bytes *)
Example c06_ex_piece :
  ex_bytes = message_bytes ex_msg /\ forall tail, dlt_message (ex_bytes ++ tail) None true = POk (Item ex_msg) tail.
Proof. split; [exact ex_bytes_eq | exact ex_parses]. Qed.

(* hypotheses of c06_junk: junk ending in the partial pattern 'DLT' *)
Example c06_ex_junk :
  let junk := [xff; x44; x4c; x54] in
  (forall j, ~ pattern_at junk j) /\ (exists r, ex_bytes ++ [xee] = pat_DLT1 ++ r) /\ 16 <= len (ex_bytes ++ [xee])
  /\ dlt_message (junk ++ ex_bytes ++ [xee]) None true = POk (Item ex_msg) [xee].
Proof.
  split; [apply no_pattern; reflexivity|]. split; [eexists; reflexivity|]. split; [vm_compute; discriminate|].
  vm_compute. reflexivity.
Qed.

(* 16 <= len x is needed: the length check of dlt_storage_header is on the whole input, so 12 junk bytes
   in front of a bare pattern pass it and the hint differs *)
Example c06_ex_len_needed :
  dlt_message (repeat x00 12 ++ pat_DLT1) None true = PIncomplete (Some 4)
  /\ dlt_message pat_DLT1 None true = PIncomplete None.
Proof. split; vm_compute; reflexivity. Qed.

(* "junk is pattern-free" is needed: a pattern inside the junk is taken for a storage header; here the
   two messages behind it are not delivered (the parser asks for 21723 more bytes) *)
Example c06_ex_pattern_free_needed :
  dlt_message (pat_DLT1 ++ ex_bytes ++ ex_bytes ++ [xee]) None true = PIncomplete (Some 21723).
Proof. vm_compute. reflexivity. Qed.

(* trailing junk *)
Example c06_ex_trailing :
  dlt_message [x44; x4c; x54] None true = PIncomplete None
  /\ dlt_message (repeat x44 20) None true = PIncomplete (Some 1).
Proof. split; vm_compute; reflexivity. Qed.

(* stream: two messages, junk before, between and behind, each junk ending in a partial pattern *)
Example c06_ex_stream :
  let l := [([x00; x44; x4c; x54], ex_bytes, Item ex_msg); ([x44; x4c], ex_bytes, Item ex_msg)] in
  Forall (good_piece None) l /\ (forall k, ~ pattern_at [x44; x4c; x54] k)
  /\ parse_all 3 (stream_bytes l [x44; x4c; x54]) None true = ([Item ex_msg; Item ex_msg], [x44; x4c; x54]).
Proof.
  cbv zeta. split; [|split].
  - apply Forall_cons; [|apply Forall_cons; [|apply Forall_nil]]; apply ex_good_piece, no_pattern; reflexivity.
  - apply no_pattern; reflexivity.
  - vm_compute. reflexivity.
Qed.

Example c06_ex_stream_messages :
  let l := [([x00; x44; x4c; x54], ex_msg); ([x44; x4c], ex_msg)] in
  (forall j m, In (j, m) l ->
     (forall k, ~ pattern_at j k) /\ m_storage m <> None /\
     (forall tail, dlt_message (message_bytes m ++ tail) None true = POk (Item m) tail)).
Proof.
  intros l j m [H|[H|[]]]; injection H as <- <-;
    (split; [apply no_pattern; reflexivity|]; split; [discriminate|]);
    rewrite <- ex_bytes_eq; exact ex_parses.
Qed.
