(* C05 — "For every well-formed message and every proper prefix of its serialised bytes, the message
   parser reports 'incomplete' rather than a message or a hard error, so a streaming caller may
   simply wait for more data; the message skipper does the same for every non-empty proper prefix
   (on empty input it reports that there is no message).  When the report carries a number of needed
   bytes, that number is at least 1 and never larger than the number of bytes actually missing."

   [firstn k (message_bytes m)] with k < length is the cut at position k; the filter [f] is
   arbitrary; the storage-header mode is the one the message was written in.
   [hint_ok None _ = True], [hint_ok (Some h) missing = 1 <= h <= missing]  (Proofs/Stable.v). *)
From DltV.Model Require Import Bytes RustInt Nom Dlt Parse.
From DltV.Spec Require Import WellFormed.
From DltV.Proofs Require Import Stable Roundtrip Prefix.
Open Scope N_scope.

Theorem c05_message : forall m f k, wf_message m = true -> (k < length (message_bytes m))%nat ->
  exists n, dlt_message (firstn k (message_bytes m)) f (has_storage m) = PIncomplete n
            /\ hint_ok n (len (message_bytes m) - N.of_nat k).
Proof. exact message_prefix_firstn. Qed.
Check c05_message : forall m f k, wf_message m = true -> (k < length (message_bytes m))%nat ->
  exists n, dlt_message (firstn k (message_bytes m)) f (has_storage m) = PIncomplete n
            /\ hint_ok n (len (message_bytes m) - N.of_nat k).
Print Assumptions c05_message.

Theorem c05_consume : forall m k, wf_message m = true -> has_storage m = true ->
  (0 < k < length (message_bytes m))%nat ->
  exists n, dlt_consume_msg (firstn k (message_bytes m)) = PIncomplete n
            /\ hint_ok n (len (message_bytes m) - N.of_nat k).
Proof. exact consume_prefix_firstn. Qed.
Check c05_consume : forall m k, wf_message m = true -> has_storage m = true ->
  (0 < k < length (message_bytes m))%nat ->
  exists n, dlt_consume_msg (firstn k (message_bytes m)) = PIncomplete n
            /\ hint_ok n (len (message_bytes m) - N.of_nat k).
Print Assumptions c05_consume.

Theorem c05_consume_empty : dlt_consume_msg [] = POk None [].
Proof. exact consume_empty. Qed.
Check c05_consume_empty : dlt_consume_msg [] = POk None [].
Print Assumptions c05_consume_empty.

(* pins hint_ok and has_storage *)
Theorem c05_hint_ok : forall n missing,
  hint_ok n missing = match n with None => True | Some h => 1 <= h <= missing end.
Proof. reflexivity. Qed.
Check c05_hint_ok : forall n missing,
  hint_ok n missing = match n with None => True | Some h => 1 <= h <= missing end.
Print Assumptions c05_hint_ok.
Theorem c05_has_storage : forall m,
  has_storage m = match m_storage m with Some _ => true | None => false end.
Proof. reflexivity. Qed.
Check c05_has_storage : forall m,
  has_storage m = match m_storage m with Some _ => true | None => false end.
Print Assumptions c05_has_storage.

(* the same for an arbitrary proper prefix given as a list, and the behaviour of the storage header
   alone: fewer than 16 bytes are Incomplete(Unknown) whatever they are *)
Theorem c05_message_prefix : forall m f c', wf_message m = true -> proper_prefix c' (message_bytes m) ->
  exists n, dlt_message c' f (has_storage m) = PIncomplete n /\ hint_ok n (len (message_bytes m) - len c').
Proof. exact message_prefix. Qed.
Check c05_message_prefix : forall m f c', wf_message m = true -> proper_prefix c' (message_bytes m) ->
  exists n, dlt_message c' f (has_storage m) = PIncomplete n /\ hint_ok n (len (message_bytes m) - len c').
Print Assumptions c05_message_prefix.
Theorem c05_storage_short : forall c, len c < 16 -> dlt_storage_header c = PIncomplete None.
Proof. exact storage_header_short. Qed.
Check c05_storage_short : forall c, len c < 16 -> dlt_storage_header c = PIncomplete None.
Print Assumptions c05_storage_short.

(* ---------- non-vacuity ---------- *)
Definition ex_m (e : endian) (sh : bool) : message :=
  message_new
    (mkCfg 1 9 e (Some [x45; x31]) None (Some 5)
       (PVerbose [ mkArg (mkTI KString SUtf8 true false) (Some [x6e]) None None (VString [x68; x69]);
                   mkArg (mkTI (KUnsigned BL128) SAscii false false) None None None (VU128 7) ])
       (Some (mkExtCfg (MLog Info) [x41] [x43])))
    (if sh then Some (mkSH (mkTS 1 2) [x45; x31]) else None).

(* the hypotheses hold for a 69-byte message with storage header; cut inside the 128-bit value *)
Example c05_ex_hyps :
  wf_message (ex_m BE true) = true /\ has_storage (ex_m BE true) = true /\
  (0 < 60 < length (message_bytes (ex_m BE true)))%nat.
Proof. repeat split; try (vm_compute; reflexivity); apply PeanoNat.Nat.ltb_lt; vm_compute; reflexivity. Qed.

(* every cut of the example messages, evaluated: Incomplete with an admissible hint *)
Definition hint_okb (n : option N) (missing : N) : bool :=
  match n with None => true | Some h => (1 <=? h) && (h <=? missing) end.
Definition all_cuts_ok (m : message) : bool :=
  forallb (fun k =>
    match dlt_message (firstn k (message_bytes m)) None (has_storage m) with
    | PIncomplete n => hint_okb n (len (message_bytes m) - N.of_nat k)
    | _ => false
    end) (seq 0 (length (message_bytes m))).
Definition all_consume_cuts_ok (m : message) : bool :=
  forallb (fun k =>
    match dlt_consume_msg (firstn k (message_bytes m)) with
    | PIncomplete n => hint_okb n (len (message_bytes m) - N.of_nat k)
    | _ => false
    end) (seq 1 (length (message_bytes m) - 1)).
Example c05_ex_cuts :
  all_cuts_ok (ex_m BE true) = true /\ all_cuts_ok (ex_m LE false) = true /\
  all_consume_cuts_ok (ex_m LE true) = true.
Proof. vm_compute. repeat split. Qed.
(* three kinds of verdict occur: Unknown inside the storage header, a field parser's hint inside a
   header, the exact shortfall behind the headers *)
Example c05_ex_verdicts :
  let bs := message_bytes (ex_m BE true) in
  dlt_message (firstn 10 bs) None true = PIncomplete None /\
  dlt_message (firstn 17 bs) None true = PIncomplete (Some 1) /\
  dlt_message (firstn 60 bs) None true = PIncomplete (Some (len bs - 60)).
Proof. vm_compute. repeat split. Qed.
