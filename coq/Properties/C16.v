(* C16 (draft) — every message the parser returns is representable by the writer.
   Key lemma of C16: if the re-serialisation of a parsed message has the length its own header
   declares, the message is well-formed ([wf_message], Spec/WellFormed.v — the domain of the
   round-trip theorem C01) and carries a storage header exactly when one was asked for.
   The composed statement c16_stable follows with C01 ([c16_from_roundtrip] below takes the
   round trip as an explicit premise until C01 is merged). *)
From DltV.Model Require Import Bytes Nom Dlt Parse Run.
From DltV.Spec Require Import WellFormed.
From DltV.Proofs Require Import ParsedWf.
Open Scope N_scope.

Theorem c16_parsed_wf : forall bs f sh m rest,
  dlt_message bs f sh = POk (Item m) rest ->
  len (message_bytes m) = (if sh then 16 else 0) + overall_length (m_header m) ->
  wf_message m = true /\ has_storage m = sh.
Proof. exact parsed_wf. Qed.
Check c16_parsed_wf : forall bs f sh m rest,
  dlt_message bs f sh = POk (Item m) rest ->
  len (message_bytes m) = (if sh then 16 else 0) + overall_length (m_header m) ->
  wf_message m = true /\ has_storage m = sh.
Print Assumptions c16_parsed_wf.

(* C16 from the C01 round trip, the latter as an explicit premise *)
Theorem c16_from_roundtrip :
  (forall m rest, wf_message m = true ->
     dlt_message (message_bytes m ++ rest) None (has_storage m) = POk (Item m) rest) ->
  forall bs f sh m rest,
  dlt_message bs f sh = POk (Item m) rest ->
  len (message_bytes m) = (if sh then 16 else 0) + overall_length (m_header m) ->
  dlt_message (message_bytes m) None sh = POk (Item m) [].
Proof. exact c16_from_rt. Qed.
Check c16_from_roundtrip :
  (forall m rest, wf_message m = true ->
     dlt_message (message_bytes m ++ rest) None (has_storage m) = POk (Item m) rest) ->
  forall bs f sh m rest,
  dlt_message bs f sh = POk (Item m) rest ->
  len (message_bytes m) = (if sh then 16 else 0) + overall_length (m_header m) ->
  dlt_message (message_bytes m) None sh = POk (Item m) [].
Print Assumptions c16_from_roundtrip.

(* ---------- non-vacuity ---------- *)
(* a dialect message: NUL-padded ids, bool with TYLE = 1, reserved string coding 2, followed by
   two bytes of the next message: both hypotheses hold, the parsed message is well-formed and its
   re-serialisation (which differs from the input: TYLE bit dropped) parses back to itself *)
Definition c16_dialect : list byte :=
  [x21; x00; x00; x13; x41; x01; x41; x00; x00; x00; x43; x00; x00; x00;
   x11; x00; x01; x00; x01; xee; xee].
Example c16_example_dialect :
  exists m, dlt_message c16_dialect None false = POk (Item m) [xee; xee] /\
    len (message_bytes m) = 0 + overall_length (m_header m) /\
    message_bytes m <> firstn 19 c16_dialect /\
    wf_message m = true /\
    dlt_message (message_bytes m) None false = POk (Item m) [].
Proof.
  eexists. split; [vm_compute; reflexivity|]. split; [vm_compute; reflexivity|].
  split; [vm_compute; discriminate|]. split; vm_compute; reflexivity.
Qed.

(* junk, storage header, non-verbose message without extended header *)
Definition c16_storage : list byte :=
  [x99; x44; x4c; x54; x01; x01; x00; x00; x00; x02; x00; x00; x00; x45; x00; xff; x31;
   x20; x07; x00; x0a; x01; x02; x03; x04; xaa; xbb; x77].
Example c16_example_storage :
  exists m, dlt_message c16_storage None true = POk (Item m) [x77] /\
    len (message_bytes m) = 16 + overall_length (m_header m) /\
    wf_message m = true /\ has_storage m = true /\
    dlt_message (message_bytes m) None true = POk (Item m) [].
Proof. eexists. repeat split; vm_compute; reflexivity. Qed.

(* network trace with two raw arguments: hypotheses hold *)
Definition c16_nw_ok : list byte :=
  [x21; x00; x00; x1c; x25; x02; x41; x00; x00; x00; x43; x00; x00; x00;
   x00; x04; x00; x00; x01; x00; xaa;   x00; x04; x00; x00; x01; x00; xbb].
Example c16_example_network :
  exists m, dlt_message c16_nw_ok None false = POk (Item m) [] /\
    len (message_bytes m) = 0 + overall_length (m_header m) /\
    wf_message m = true /\ m_payload m = PNetworkTrace [[xaa]; [xbb]].
Proof. eexists. repeat split; vm_compute; reflexivity. Qed.

(* the length hypothesis cannot be dropped: a network-trace message whose second argument is a
   bool is returned with that argument silently dropped (NOAR = 2, one slice); it is not
   well-formed, its re-serialisation is 5 bytes shorter than its header declares and does not
   parse back *)
Definition c16_nw_dropped : list byte :=
  [x21; x00; x00; x1a; x25; x02; x41; x00; x00; x00; x43; x00; x00; x00;
   x00; x04; x00; x00; x01; x00; xaa;   x10; x00; x00; x00; x01].
Example c16_length_hypothesis_needed :
  exists m, dlt_message c16_nw_dropped None false = POk (Item m) [] /\
    len (message_bytes m) = 21 /\ overall_length (m_header m) = 26 /\
    wf_message m = false /\
    dlt_message (message_bytes m) None false = PIncomplete (Some 5).
Proof. eexists. repeat split; vm_compute; reflexivity. Qed.

(* ---------- the property itself: the premise of [c16_from_roundtrip] is C01 ---------- *)
From DltV.Proofs Require Roundtrip.

Theorem c16_stable : forall bs f sh m rest,
  dlt_message bs f sh = POk (Item m) rest ->
  len (message_bytes m) = (if sh then 16 else 0) + overall_length (m_header m) ->
  dlt_message (message_bytes m) None sh = POk (Item m) [].
Proof. exact (c16_from_roundtrip Roundtrip.message_roundtrip). Qed.
Check c16_stable : forall bs f sh m rest,
  dlt_message bs f sh = POk (Item m) rest ->
  len (message_bytes m) = (if sh then 16 else 0) + overall_length (m_header m) ->
  dlt_message (message_bytes m) None sh = POk (Item m) [].
Print Assumptions c16_stable.

(* "serialising again reproduces the same bytes": whatever the second parse returns re-serialises
   to the bytes it was parsed from *)
Theorem c16_bytes_stable : forall bs f sh m rest m' rest',
  dlt_message bs f sh = POk (Item m) rest ->
  len (message_bytes m) = (if sh then 16 else 0) + overall_length (m_header m) ->
  dlt_message (message_bytes m) None sh = POk (Item m') rest' ->
  m' = m /\ rest' = [] /\ message_bytes m' = message_bytes m.
Proof.
  intros bs f sh m rest m' rest' H L H2.
  rewrite (c16_stable bs f sh m rest H L) in H2. injection H2 as <- <-. repeat split.
Qed.
Check c16_bytes_stable : forall bs f sh m rest m' rest',
  dlt_message bs f sh = POk (Item m) rest ->
  len (message_bytes m) = (if sh then 16 else 0) + overall_length (m_header m) ->
  dlt_message (message_bytes m) None sh = POk (Item m') rest' ->
  m' = m /\ rest' = [] /\ message_bytes m' = message_bytes m.
Print Assumptions c16_bytes_stable.
