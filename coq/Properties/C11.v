(* C11 — "For every set of FIBEX documents describing frames, PDUs, signals and codings, loading
   them returns a model in which each frame (by its id, and by context id + application id + frame
   id when both are given) carries its short name, message type/info, and its PDUs ordered by
   sequence number, each PDU with its description and its signal types ordered by sequence number
   and mapped from the standard signal names or through signal -> coding -> base data type; element
   order inside the documents and distribution over several files do not matter, the first
   definition of a duplicated frame or PDU id wins, unknown signal references are skipped, and a
   reference to an unknown PDU makes loading fail. Looking up metadata for a message id returns
   that frame via the extended header's ids when one is supplied and via the frame id alone
   otherwise."

   Spec/FibexSpec.v: abstract model [afibex], canonical event rendering, layouts (any permutation
   of the top-level elements, any split over files), and the declarative meaning [denote].
   The loader is the REPAIRED one of Model/Fibex.v; results are compared up to map lookups. *)
From Coq Require Import Sorting.Permutation Sorting.Sorted.
From Coq.Strings Require Import Ascii String.
From DltV.Model Require Import Bytes RustInt Dlt Fibex.
From DltV.Spec Require Import FibexSpec.
From DltV.Proofs Require Import FibexSort FibexLookup FibexDenote FibexLoad FibexOrder.
Open Scope N_scope.

(* ---- loading: any element order, any distribution over files ---- *)
Theorem c11_load : forall (a : afibex) (l : layout),
  is_layout_of a l -> model_ok a = true ->
  exists m d, gather_fibex_data (files_of l) = Some m /\ denote (concat l) = Some d /\ meta_equiv m d.
Proof. exact load_layout. Qed.
Check c11_load : forall (a : afibex) (l : layout),
  is_layout_of a l -> model_ok a = true ->
  exists m d, gather_fibex_data (files_of l) = Some m /\ denote (concat l) = Some d /\ meta_equiv m d.
Print Assumptions c11_load.

(* the same without going through [afibex]: ANY lists of well-formed elements, one list per file;
   the loader returns the meaning of the elements, or refuses exactly when there is none *)
Theorem c11_load_elements : forall (l : layout),
  l <> [] -> elements_ok (concat l) = true ->
  match denote (concat l) with
  | Some d => exists m, gather_fibex_data (files_of l) = Some m /\ meta_equiv m d
  | None => load (files_of l) = Refused /\ gather_fibex_data (files_of l) = None
  end.
Proof. exact load_rendered. Qed.
Check c11_load_elements : forall (l : layout),
  l <> [] -> elements_ok (concat l) = true ->
  match denote (concat l) with
  | Some d => exists m, gather_fibex_data (files_of l) = Some m /\ meta_equiv m d
  | None => load (files_of l) = Refused /\ gather_fibex_data (files_of l) = None
  end.
Print Assumptions c11_load_elements.

(* with unique ids, element order and distribution over files do not matter at all: every layout
   yields the meaning of the model in its canonical order *)
Theorem c11_order_irrelevant : forall (a : afibex) (l : layout),
  is_layout_of a l -> model_ok a = true -> unique_ids (render_elements a) ->
  exists m d, gather_fibex_data (files_of l) = Some m /\ denote (render_elements a) = Some d /\
              meta_equiv m d.
Proof. exact load_layout_canonical. Qed.
Check c11_order_irrelevant : forall (a : afibex) (l : layout),
  is_layout_of a l -> model_ok a = true -> unique_ids (render_elements a) ->
  exists m d, gather_fibex_data (files_of l) = Some m /\ denote (render_elements a) = Some d /\
              meta_equiv m d.
Print Assumptions c11_order_irrelevant.

Theorem c11_denote_order : forall els els',
  Permutation els els' -> unique_ids els ->
  match denote els, denote els' with
  | Some d, Some d' => meta_equiv d d'
  | None, None => True
  | _, _ => False
  end.
Proof. exact denote_perm. Qed.
Check c11_denote_order : forall els els',
  Permutation els els' -> unique_ids els ->
  match denote els, denote els' with
  | Some d, Some d' => meta_equiv d d'
  | None, None => True
  | _, _ => False
  end.
Print Assumptions c11_denote_order.

(* ---- a reference to an unknown PDU makes loading fail ---- *)
Theorem c11_missing_pdu : forall (a : afibex) (l : layout) f i,
  is_layout_of a l -> elements_ok (render_elements a) = true ->
  In f (a_frames a) -> In i (af_pdus f) ->
  (forall p, In p (a_pdus a) -> ap_id p <> snd i) ->
  load (files_of l) = Refused /\ gather_fibex_data (files_of l) = None.
Proof. exact load_layout_missing_pdu. Qed.
Check c11_missing_pdu : forall (a : afibex) (l : layout) f i,
  is_layout_of a l -> elements_ok (render_elements a) = true ->
  In f (a_frames a) -> In i (af_pdus f) ->
  (forall p, In p (a_pdus a) -> ap_id p <> snd i) ->
  load (files_of l) = Refused /\ gather_fibex_data (files_of l) = None.
Print Assumptions c11_missing_pdu.

(* the meaning exists exactly when no frame has a dangling PDU reference *)
Theorem c11_denote_none : forall els,
  denote els = None <->
  exists f i, In (ElFrame f) els /\ In i (af_pdus f) /\ pdu_defined els (snd i) = false.
Proof. exact denote_none. Qed.
Check c11_denote_none : forall els,
  denote els = None <->
  exists f i, In (ElFrame f) els /\ In i (af_pdus f) /\ pdu_defined els (snd i) = false.
Print Assumptions c11_denote_none.

(* ---- lookup ---- *)
Theorem c11_lookup : forall m id,
  (forall eh, extract_metadata m id (Some eh)
              = key_get (e_ctid eh, e_apid eh, bs "ID_" ++ decimal id) (frame_map_with_key m)) /\
  extract_metadata m id None = assoc_get (bs "ID_" ++ decimal id) (frame_map m).
Proof. exact extract_metadata_spec. Qed.
Check c11_lookup : forall m id,
  (forall eh, extract_metadata m id (Some eh)
              = key_get (e_ctid eh, e_apid eh, bs "ID_" ++ decimal id) (frame_map_with_key m)) /\
  extract_metadata m id None = assoc_get (bs "ID_" ++ decimal id) (frame_map m).
Print Assumptions c11_lookup.

(* distinct message ids never share a key *)
Theorem c11_lookup_key_injective : forall a b, id_text a = id_text b -> a = b.
Proof. exact id_text_inj. Qed.
Check c11_lookup_key_injective : forall a b, id_text a = id_text b -> a = b.
Print Assumptions c11_lookup_key_injective.

(* what is returned is the entry stored under exactly the requested ids *)
Theorem c11_lookup_sound : forall m id eh f,
  (extract_metadata m id (Some eh) = Some f ->
     In ((e_ctid eh, e_apid eh, id_text id), f) (frame_map_with_key m)) /\
  (extract_metadata m id None = Some f -> In (id_text id, f) (frame_map m)).
Proof. exact extract_metadata_sound. Qed.
Check c11_lookup_sound : forall m id eh f,
  (extract_metadata m id (Some eh) = Some f ->
     In ((e_ctid eh, e_apid eh, id_text id), f) (frame_map_with_key m)) /\
  (extract_metadata m id None = Some f -> In (id_text id, f) (frame_map m)).
Print Assumptions c11_lookup_sound.

(* ---- the sort ---- *)
Theorem c11_sort_stable : forall (A : Type) (l : list (N * A)),
  Permutation (sort_by_key l) l /\
  StronglySorted key_le (sort_by_key l) /\
  (forall k, filter (has_key k) (sort_by_key l) = filter (has_key k) l).
Proof. exact (@sort_by_key_spec). Qed.
Check c11_sort_stable : forall (A : Type) (l : list (N * A)),
  Permutation (sort_by_key l) l /\
  StronglySorted key_le (sort_by_key l) /\
  (forall k, filter (has_key k) (sort_by_key l) = filter (has_key k) l).
Print Assumptions c11_sort_stable.

(* ... and these properties pin the result down *)
Theorem c11_sort_unique : forall (A : Type) (l l' : list (N * A)),
  StronglySorted key_le l' ->
  (forall k, filter (has_key k) l' = filter (has_key k) l) ->
  l' = sort_by_key l.
Proof. exact (@sort_by_key_unique). Qed.
Check c11_sort_unique : forall (A : Type) (l l' : list (N * A)),
  StronglySorted key_le l' ->
  (forall k, filter (has_key k) l' = filter (has_key k) l) ->
  l' = sort_by_key l.
Print Assumptions c11_sort_unique.

(* numbers printed in decimal are read back by the crate's `parse::<usize>()` *)
Theorem c11_decimal_roundtrip : forall n, n < 2 ^ 64 -> usize_from_str (decimal n) = Some n.
Proof. exact usize_from_str_decimal. Qed.
Check c11_decimal_roundtrip : forall n, n < 2 ^ 64 -> usize_from_str (decimal n) = Some n.
Print Assumptions c11_decimal_roundtrip.

(* ---- the hypotheses are satisfiable: a small model, laid out over two files ---- *)
Definition ex_p1 : apdu :=
  mkAPdu (bs "P1") (bs "P1") (Some (bs "first")) 12
         [(1, bs "S_UINT8"); (0, bs "SIG1"); (1, bs "S_STRG_UTF8"); (7, bs "S_NOSUCH")].
Definition ex_p2 : apdu := mkAPdu (bs "P2") (bs "P2") None 0 [].
Definition ex_f7 : aframe :=
  mkAFrame (bs "ID_7") (bs "frame7") 12 (Some (bs "APP")) (Some (bs "CTX"))
           (Some (bs "DLT_TYPE_LOG")) (Some (bs "DLT_LOG_WARN")) [(1, bs "P2"); (0, bs "P1")].
Definition ex_f8 : aframe :=
  mkAFrame (bs "ID_8") (bs "frame8") 0 None None None None [(0, bs "P2")].
Definition ex_model : afibex :=
  mkAFibex [ex_f7; ex_f8] [ex_p1; ex_p2] [(bs "SIG1", bs "COD1")] [(bs "COD1", bs "A_FLOAT64")].
Definition ex_layout : layout :=
  [ [ElCoding (bs "COD1") (bs "A_FLOAT64"); ElFrame ex_f7; ElPdu ex_p2];
    [ElFrame ex_f8; ElSignal (bs "SIG1") (bs "COD1"); ElPdu ex_p1] ].

Example c11_ex_model_ok : model_ok ex_model = true.
Proof. vm_compute. reflexivity. Qed.

Example c11_ex_layout : is_layout_of ex_model ex_layout.
Proof.
  split; [discriminate|].
  change (Permutation
    [ElCoding (bs "COD1") (bs "A_FLOAT64"); ElFrame ex_f7; ElPdu ex_p2;
     ElFrame ex_f8; ElSignal (bs "SIG1") (bs "COD1"); ElPdu ex_p1]
    [ElPdu ex_p1; ElPdu ex_p2; ElFrame ex_f7; ElFrame ex_f8;
     ElSignal (bs "SIG1") (bs "COD1"); ElCoding (bs "COD1") (bs "A_FLOAT64")]).
  apply (Permutation_cons_app [ElPdu ex_p1; ElPdu ex_p2; ElFrame ex_f7; ElFrame ex_f8; ElSignal (bs "SIG1") (bs "COD1")] []).
  cbn [app].
  apply (Permutation_cons_app [ElPdu ex_p1; ElPdu ex_p2] [ElFrame ex_f8; ElSignal (bs "SIG1") (bs "COD1")]).
  cbn [app].
  apply (Permutation_cons_app [ElPdu ex_p1] [ElFrame ex_f8; ElSignal (bs "SIG1") (bs "COD1")]).
  cbn [app].
  apply (Permutation_cons_app [ElPdu ex_p1] [ElSignal (bs "SIG1") (bs "COD1")]).
  cbn [app].
  apply (Permutation_cons_app [ElPdu ex_p1] []).
  apply Permutation_refl.
Qed.

Example c11_ex_unique : unique_ids (render_elements ex_model).
Proof.
  split; vm_compute;
    repeat (constructor; [intros H; repeat (destruct H as [H|H]; [discriminate H|]); exact H|]);
    constructor.
Qed.

(* the frame the loader produces: PDUs P1, P2 in sequence order; P1's signal types in sequence
   order with the equal keys 1, 1 in document order, SIG1 resolved through COD1 to a 64-bit float,
   the unknown reference skipped *)
Definition ex_frame7 : frame_metadata :=
  mkFrame (bs "frame7")
    [ mkPdu (Some (bs "first")) [ti_float64; ti_uint8; ti_utf8_str]; mkPdu None [] ]
    (Some (bs "APP")) (Some (bs "CTX")) (Some (bs "DLT_TYPE_LOG")) (Some (bs "DLT_LOG_WARN")).

Example c11_ex_load :
  exists m, gather_fibex_data (files_of ex_layout) = Some m /\
            extract_metadata m 7 None = Some ex_frame7 /\
            extract_metadata m 7 (Some (mkExt false 0 (MLog Info) (bs "APP") (bs "CTX"))) = Some ex_frame7 /\
            extract_metadata m 7 (Some (mkExt false 0 (MLog Info) (bs "APP") (bs "XXX"))) = None /\
            extract_metadata m 8 (Some (mkExt false 0 (MLog Info) (bs "APP") (bs "CTX"))) = None /\
            extract_metadata m 9 None = None.
Proof. eexists. split; [vm_compute; reflexivity|]. vm_compute. repeat split. Qed.

(* first definition wins; a dangling reference refuses the lot *)
Example c11_ex_duplicate :
  exists m, gather_fibex_data (files_of [[ElPdu ex_p2; ElFrame ex_f8];
                                          [ElFrame (mkAFrame (bs "ID_8") (bs "other") 0 None None None None [])]])
            = Some m /\
            option_map fm_short_name (extract_metadata m 8 None) = Some (bs "frame8").
Proof. eexists. split; vm_compute; reflexivity. Qed.
Example c11_ex_dangling : gather_fibex_data (files_of [[ElFrame ex_f8]]) = None.
Proof. vm_compute. reflexivity. Qed.
Example c11_ex_sort :
  sort_by_key [(2, bs "c"); (1, bs "a"); (2, bs "d"); (1, bs "b"); (0, bs "z")]
  = [(0, bs "z"); (1, bs "a"); (1, bs "b"); (2, bs "c"); (2, bs "d")].
Proof. vm_compute. reflexivity. Qed.
