(* C09b — C09 (filtering) composed with the round trip C01: parsing the serialised bytes of a well-formed
   message with a filter configuration returns the filtered-out marker (with the payload length) exactly
   when the drop rule [spec_dropped] (Spec/FilterSpec.v) says so, and the message itself otherwise; the
   remainder is what followed the message in both cases. *)
From DltV.Model Require Import Bytes Nom Dlt Parse.
From DltV.Spec Require Import WellFormed FilterSpec.
From DltV.Proofs Require Import Roundtrip Compose.
Open Scope N_scope.

Theorem c09b_filter_message : forall m cfg rest, wf_message m = true ->
  dlt_message (message_bytes m ++ rest) (Some (process_filter cfg)) (has_storage m) =
  if spec_dropped cfg m then POk (FilteredOut (h_payload_length (m_header m))) rest else POk (Item m) rest.
Proof. exact filter_message. Qed.
Check c09b_filter_message : forall m cfg rest, wf_message m = true ->
  dlt_message (message_bytes m ++ rest) (Some (process_filter cfg)) (has_storage m) =
  if spec_dropped cfg m then POk (FilteredOut (h_payload_length (m_header m))) rest else POk (Item m) rest.
Print Assumptions c09b_filter_message.

(* ---------- non-vacuity ---------- *)
Definition ex_u8 : argument := mkArg (mkTI (KUnsigned BL8) SAscii false false) None None None (VU8 200).
(* verbose WARN log message, ECU "E1", application "APP", context "CTX" *)
Definition ex_m (sh : option storage_header) : message :=
  mkMsg sh (mkStd 1 LE true 7 (Some [x45; x31]) None (Some 123456) 5)
        (Some (mkExt true 1 (MLog Warn) [x41; x50; x50] [x43; x54; x58])) (PVerbose [ex_u8]).
Definition ex_sh : storage_header := mkSH (mkTS 1 2) [x45; x43; x55].
(* no extended header *)
Definition ex_noext : message := mkMsg None (mkStd 1 BE false 0 None None None 6) None (PNonVerbose 9 [x01; x02]).

Example c09b_ex_wf :
  wf_message (ex_m None) = true /\ wf_message (ex_m (Some ex_sh)) = true /\ wf_message ex_noext = true.
Proof. repeat split; vm_compute; reflexivity. Qed.

(* minimum ERROR (2): WARN is less severe -> dropped; minimum WARN (3) -> kept *)
Example c09b_ex_level :
  spec_dropped (mkFC (Some 2) None None None 0 0) (ex_m None) = true /\
  dlt_message (message_bytes (ex_m None) ++ [xee]) (Some (process_filter (mkFC (Some 2) None None None 0 0))) false
    = POk (FilteredOut 5) [xee] /\
  spec_dropped (mkFC (Some 3) None None None 0 0) (ex_m (Some ex_sh)) = false /\
  dlt_message (message_bytes (ex_m (Some ex_sh)) ++ [xee]) (Some (process_filter (mkFC (Some 3) None None None 0 0))) true
    = POk (Item (ex_m (Some ex_sh))) [xee].
Proof. repeat split; vm_compute; reflexivity. Qed.

(* id sets: context id not allowed -> dropped; ECU id of the standard header not allowed -> dropped *)
Example c09b_ex_ids :
  dlt_message (message_bytes (ex_m None)) (Some (process_filter (mkFC None (Some [[x41; x50; x50]]) None (Some [[x43]]) 0 0))) false
    = POk (FilteredOut 5) [] /\
  dlt_message (message_bytes (ex_m None)) (Some (process_filter (mkFC None None (Some [[x45; x32]; [x45; x32]]) None 0 0))) false
    = POk (FilteredOut 5) [] /\
  dlt_message (message_bytes (ex_m None)) (Some (process_filter (mkFC None (Some [[x41; x50; x50]]) (Some [[x45; x31]]) (Some [[x43; x54; x58]]) 0 0))) false
    = POk (Item (ex_m None)) [].
Proof. repeat split; vm_compute; reflexivity. Qed.

(* no extended header: set of one distinct id, declared count 2 -> dropped; count 1 -> kept *)
Example c09b_ex_noext :
  spec_dropped (mkFC None (Some [[x41]; [x41]]) None None 2 0) ex_noext = true /\
  dlt_message (message_bytes ex_noext ++ [xee]) (Some (process_filter (mkFC None (Some [[x41]; [x41]]) None None 2 0))) false
    = POk (FilteredOut 6) [xee] /\
  dlt_message (message_bytes ex_noext ++ [xee]) (Some (process_filter (mkFC None (Some [[x41]; [x41]]) None None 1 0))) false
    = POk (Item ex_noext) [xee].
Proof. repeat split; vm_compute; reflexivity. Qed.
