(* C04 — a successful parse consumes exactly the declared message and makes progress. *)
From DltV.Model Require Import Bytes Nom Dlt Parse.
From DltV.Proofs Require Import ParseLemmas Search Consumption.
Open Scope N_scope.

(* [located sh bs skip after]: with storage headers, [skip] is the offset of the first DLT\x01
   pattern and [after] is the input behind the 16-byte storage header found there; without,
   skip = 0 and after = bs.  [declared_len after] is the big-endian u16 at offset 2 of the
   standard header, [splits bs rest n] says bs = (n bytes) ++ rest. *)
Theorem c04_message : forall bs f sh pm rest,
  dlt_message bs f sh = POk pm rest ->
  exists skip after, located sh bs skip after /\
    splits bs rest (skip + (if sh then 16 else 0) + declared_len after) /\
    4 <= declared_len after /\ pm <> Invalid /\
    (forall n, pm = FilteredOut n -> n = declared_len after - calculate_all_headers_length (htyp_of after)).
Proof. exact dlt_message_consumes. Qed.
Check c04_message : forall bs f sh pm rest,
  dlt_message bs f sh = POk pm rest ->
  exists skip after, located sh bs skip after /\
    splits bs rest (skip + (if sh then 16 else 0) + declared_len after) /\
    4 <= declared_len after /\ pm <> Invalid /\
    (forall n, pm = FilteredOut n -> n = declared_len after - calculate_all_headers_length (htyp_of after)).
Print Assumptions c04_message.

Theorem c04_consume : forall bs c rest,
  dlt_consume_msg bs = POk (Some c) rest ->
  c = 16 + declared_len (skipn 16 bs) /\ splits bs rest c /\ 0 < c.
Proof. exact dlt_consume_msg_consumes. Qed.
Check c04_consume : forall bs c rest,
  dlt_consume_msg bs = POk (Some c) rest ->
  c = 16 + declared_len (skipn 16 bs) /\ splits bs rest c /\ 0 < c.
Print Assumptions c04_consume.

Theorem c04_filter_independent : forall bs f1 f2 sh pm1 pm2 rest1 rest2,
  dlt_message bs f1 sh = POk pm1 rest1 -> dlt_message bs f2 sh = POk pm2 rest2 -> rest1 = rest2.
Proof. exact filter_independent_rest. Qed.
Check c04_filter_independent : forall bs f1 f2 sh pm1 pm2 rest1 rest2,
  dlt_message bs f1 sh = POk pm1 rest1 -> dlt_message bs f2 sh = POk pm2 rest2 -> rest1 = rest2.
Print Assumptions c04_filter_independent.

(* repeated parsing with fuel > length of the buffer stops because the parser stops succeeding,
   never because the fuel ran out; every iteration consumed a whole declared message (c04_message) *)
Theorem c04_parse_all_terminates : forall fuel bs f sh,
  (length bs < fuel)%nat ->
  let '(l, r) := parse_all fuel bs f sh in forall x y, dlt_message r f sh <> POk x y.
Proof. exact parse_all_terminates. Qed.
Check c04_parse_all_terminates : forall fuel bs f sh,
  (length bs < fuel)%nat ->
  let '(l, r) := parse_all fuel bs f sh in forall x y, dlt_message r f sh <> POk x y.
Print Assumptions c04_parse_all_terminates.

(* non-vacuity: a message whose single bool argument is shorter than its declared payload
   (LEN = 0x13, NOAR = 1, five payload bytes + four trailing payload bytes) is accepted and
   the remainder starts behind the declared end *)
Example c04_example :
  let bs := [x21; x00; x00; x17; x41; x01; x41; x00; x00; x00; x43; x00; x00; x00;
             x10; x00; x00; x00; x01; x02; x03; x04; x05; xee; xee] in
  exists m, dlt_message bs None false = POk (Item m) [xee; xee].
Proof. eexists. vm_compute. reflexivity. Qed.
