(* C02 — "Writer and parser agree with an independent reference codec of the DLT format."

   [Spec/Layout.v] is the reference codec, written from the layout description (storage header
   'DLT\x01' + little-endian seconds/microseconds + 4-byte ECU id; HTYP, MCNT, big-endian LEN, then
   ECU id, session id, timestamp; MSIN, NOAR, APID, CTID; payload in the MSBF byte order; type-info
   bit positions; 16-bit length prefixes; NUL terminators), with its own bit-field code
   (N.testbit, / 2^lo mod 2^n, sums of bit weights) and total non-streaming readers:
     [spec_encode m]      the bytes of a message, field by field;
     [spec_decode sh bs]  locate the message, cut exactly LEN bytes, decode the slice:
                          VMessage m consumed | VIncomplete | VReject  (rules S1-S4, M1-M5 there).
   [verdict_of] (Proofs/LayoutVerdict.v) projects the parser's result to the same three classes:
   POk (Item m) rest -> VMessage m (len input - len rest); PIncomplete _ -> VIncomplete;
   PError / PFailure -> VReject (hints and error texts are not compared).

   Both theorems are at full strength: every well-formed message; every byte string and both
   storage-header modes. *)
From DltV.Model Require Import Bytes Utf8 Nom Dlt Parse.
From DltV.Spec Require Import WellFormed Layout.
From DltV.Proofs Require Import LayoutVerdict LayoutBits LayoutArgs LayoutDecode LayoutEncode.
Open Scope N_scope.

Theorem c02_encode : forall m, wf_message m = true -> message_bytes m = spec_encode m.
Proof. exact spec_encode_correct. Qed.
Check c02_encode : forall m, wf_message m = true -> message_bytes m = spec_encode m.
Print Assumptions c02_encode.

Theorem c02_decode : forall bs sh, verdict_of (dlt_message bs None sh) bs = spec_decode sh bs.
Proof. exact spec_decode_correct. Qed.
Check c02_decode : forall bs sh, verdict_of (dlt_message bs None sh) bs = spec_decode sh bs.
Print Assumptions c02_decode.

(* the two building blocks that carry the dialect: every 32-bit-or-larger type-info word, and
   every argument on every input (agree: Ok <-> fits, with the same value and the same rest;
   Incomplete / Error <-> does not fit or is not a supported type info) *)
Theorem c02_type_info : forall w, ti_of_word w = ti_decode w.
Proof. exact ti_of_word_decode. Qed.
Check c02_type_info : forall w, ti_of_word w = ti_decode w.
Print Assumptions c02_type_info.

Theorem c02_argument : forall e i, agree (dlt_argument e i) (rd_arg e i).
Proof. exact agree_arg. Qed.
Check c02_argument : forall e i, agree (dlt_argument e i) (rd_arg e i).
Print Assumptions c02_argument.

(* ---------- non-vacuity ---------- *)
(* a well-formed big-endian verbose message with storage header, all optional header fields, a named
   fixed-point argument and a string: the hypothesis of c02_encode holds, and its bytes begin
   DLT\x01, seconds LE, microseconds LE, ECU, HTYP 0x3f, MCNT, LEN BE ... *)
Definition c02_msg : message :=
  message_new
    (mkCfg 1 7 BE (Some [x45; x31]) (Some 66051) (Some 4294967295)
       (PVerbose
          [ mkArg (mkTI (KSignedFixed W32) SAscii true false) (Some [x6e]) (Some [x6d; xc3; xa9])
                  (Some (mkFP 1065353216 (FI32 (-7)))) (VI32 (-100));
            mkArg (mkTI KString SUtf8 false false) None None None (VString [x68; x69]) ])
       (Some (mkExtCfg (MLog Warn) [x41; x50] [x43; x54; x58; x31])))
    (Some (mkSH (mkTS 1700000000 999999) [x45; x31])).
Example c02_msg_wf : wf_message c02_msg = true.
Proof. vm_compute. reflexivity. Qed.
Example c02_msg_bytes :
  firstn 24 (spec_encode c02_msg)
  = [x44; x4c; x54; x01; x00; xf1; x53; x65; x3f; x42; x0f; x00; x45; x31; x00; x00;
     x3f; x07; x00; x3d; x45; x31; x00; x00].
Proof. vm_compute. reflexivity. Qed.

(* the three verdict classes of c02_decode all occur: the message itself (followed by junk),
   a proper prefix, and the message with ARAY set in the first type info *)
Example c02_decode_message :
  spec_decode true ([xaa; xbb] ++ spec_encode c02_msg ++ [xcc])
  = VMessage c02_msg (2 + len (spec_encode c02_msg)).
Proof. vm_compute. reflexivity. Qed.
Example c02_decode_incomplete :
  spec_decode true (firstn 70 (spec_encode c02_msg)) = VIncomplete.
Proof. vm_compute. reflexivity. Qed.
Example c02_decode_reject :
  let bs := spec_encode c02_msg in
  spec_decode true (firstn 44 bs ++ [x19] ++ skipn 45 bs) = VReject
  /\ nth 44 bs xff = x18.
Proof. vm_compute. split; reflexivity. Qed.
(* dialect: bool with TYLE = 1 and with STRU / high bits set, NUL-padded ids *)
Example c02_decode_dialect :
  match spec_decode false
          [x21; x00; x00; x18; x41; x02; x41; x00; x42; x00; x43; x44; x00; x00;
           x11; x00; x00; x00; x01; x10; x40; x00; x80; x00] with
  | VMessage m 24 =>
    option_map e_apid (m_ext m) = Some [x41] /\ option_map e_ctid (m_ext m) = Some [x43; x44] /\
    match m_payload m with
    | PVerbose [a1; a2] => a_value a1 = VBool 1 /\ a_value a2 = VBool 0 /\ ti_kind_of (a_ti a2) = KBool
    | _ => False
    end
  | _ => False
  end.
Proof. vm_compute. repeat split; reflexivity. Qed.
