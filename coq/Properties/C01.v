(* C01 — "For every well-formed DLT message value (any payload kind: verbose arguments of every type,
   non-verbose, control, network trace; either byte order; any combination of optional header fields;
   with or without storage header) parsing its serialised bytes yields a message equal field-for-field
   (floats bit-for-bit) to the original, and the unconsumed remainder is exactly whatever bytes
   followed the message.  Nothing that follows the message in the buffer influences the result."

   [message_bytes] (Model/Dlt.v) is Message::as_bytes, [dlt_message] (Model/Parse.v) is
   dlt_message(input, filter, with_storage_header); [wf_message] (Spec/WellFormed.v) is the
   quantifier of the property; [has_storage m] says whether m carries a storage header (the mode
   the parser is called in).  [rest] is universally quantified: it is returned unchanged and does
   not influence the message.  f32/f64 values are their bit patterns in the model, so equality of
   messages is bit-for-bit. *)
From DltV.Model Require Import Bytes RustInt Nom Dlt Parse.
From DltV.Spec Require Import WellFormed.
From DltV.Proofs Require Import Stable ArgsRoundtrip Roundtrip.
Open Scope N_scope.

Theorem c01_roundtrip : forall m rest, wf_message m = true ->
  dlt_message (message_bytes m ++ rest) None (has_storage m) = POk (Item m) rest.
Proof. exact message_roundtrip. Qed.
Check c01_roundtrip : forall m rest, wf_message m = true ->
  dlt_message (message_bytes m ++ rest) None (has_storage m) = POk (Item m) rest.
Print Assumptions c01_roundtrip.

(* pins has_storage *)
Theorem c01_has_storage : forall m,
  has_storage m = match m_storage m with Some _ => true | None => false end.
Proof. reflexivity. Qed.
Check c01_has_storage : forall m,
  has_storage m = match m_storage m with Some _ => true | None => false end.
Print Assumptions c01_has_storage.

(* with any filter: the message comes back iff the filter keeps it; otherwise it is skipped as a
   whole and the remainder is the same *)
Theorem c01_roundtrip_filter : forall m f rest, wf_message m = true ->
  dlt_message (message_bytes m ++ rest) f (has_storage m) =
  if filtered_out (m_ext m) f (h_ecu (m_header m))
  then POk (FilteredOut (h_payload_length (m_header m))) rest
  else POk (Item m) rest.
Proof. exact message_roundtrip_filter. Qed.
Check c01_roundtrip_filter : forall m f rest, wf_message m = true ->
  dlt_message (message_bytes m ++ rest) f (has_storage m) =
  if filtered_out (m_ext m) f (h_ecu (m_header m))
  then POk (FilteredOut (h_payload_length (m_header m))) rest
  else POk (Item m) rest.
Print Assumptions c01_roundtrip_filter.

(* the debug-build overflow panics of the writer (u16 `len + 1`, overall_length) do not fire *)
Theorem c01_no_overflow : forall m, wf_message m = true -> message_bytes_overflows m = false.
Proof. exact message_no_overflow. Qed.
Check c01_no_overflow : forall m, wf_message m = true -> message_bytes_overflows m = false.
Print Assumptions c01_no_overflow.

(* every argument on its own, either byte order: read back with any continuation, and every proper
   prefix of its bytes is Incomplete *)
Theorem c01_argument : forall e a, wf_arg a = true -> stable (dlt_argument e) (arg_bytes e a) a.
Proof. exact stable_argument. Qed.
Check c01_argument : forall e a, wf_arg a = true -> stable (dlt_argument e) (arg_bytes e a) a.
Print Assumptions c01_argument.

(* ---------- non-vacuity: concrete well-formed messages, built by Message::new ---------- *)
Definition sA : list byte := [x41; x42].                 (* "AB" *)
Definition sU : list byte := [xc3; xa4; x6d].            (* "äm" *)
Definition ex_args : list argument :=
  [ mkArg (mkTI KBool SAscii true false) (Some sA) None None (VBool 1);
    mkArg (mkTI KBool SAscii false false) None None None (VBool 0);
    mkArg (mkTI (KUnsigned BL32) SAscii true false) (Some sA) (Some sU) None (VU32 4000000000);
    mkArg (mkTI (KUnsigned BL8) SAscii false false) None None None (VU8 255);
    mkArg (mkTI (KUnsigned BL128) SAscii false false) None None None (VU128 (2 ^ 127 + 5));
    mkArg (mkTI (KSigned BL16) SAscii false true) None None None (VI16 (-2)%Z);
    mkArg (mkTI (KSigned BL8) SAscii false false) None None None (VI8 (-128)%Z);
    mkArg (mkTI (KSigned BL64) SAscii true false) (Some []) (Some []) None (VI64 (-(2 ^ 63))%Z);
    mkArg (mkTI (KSignedFixed W32) SAscii false false) None None (Some (mkFP 1065353216 (FI32 (-7)%Z))) (VI32 (-100)%Z);
    mkArg (mkTI (KUnsignedFixed W64) SAscii true false) (Some sA) (Some sA) (Some (mkFP 1056964608 (FI64 12345678901%Z))) (VU64 18446744073709551615);
    mkArg (mkTI (KFloat W32) SAscii false false) None None None (VF32 2143289344);      (* a NaN *)
    mkArg (mkTI (KFloat W64) SAscii true false) (Some sU) (Some sA) None (VF64 13830554455654793216);
    mkArg (mkTI KString SUtf8 true false) (Some sA) None None (VString sU);
    mkArg (mkTI KString (SReserved 5) false false) None None None (VString []);
    mkArg (mkTI KRaw SAscii true false) (Some sA) None None (VRaw [x00; xff; x00]);
    mkArg (mkTI KRaw SAscii false false) None None None (VRaw []) ].

Definition ex_sh : storage_header := mkSH (mkTS 1700000000 999999) [x45; x43; x55].
Definition ex_msg (e : endian) (p : payload) (mt : message_type) (sh : option storage_header) : message :=
  message_new (mkCfg 1 200 e (Some [x45; x43; x55; x31]) (Some 4294967295) (Some 77) p
                 (Some (mkExtCfg mt [x41; x50; x50] [x43; x54; x58; x31]))) sh.
(* Message::new always sets verbose = false for non-verbose/control payloads *)
Definition ex_nonverbose_noext (e : endian) : message :=
  message_new (mkCfg 7 0 e None None None (PNonVerbose 3735928559 [x01; x02; x03]) None) None.

(* hypothesis satisfied, and the conclusion re-checked by evaluation (message identical, remainder
   identical, here a remainder that starts like another storage header) *)
Definition rt (m : message) : Prop :=
  wf_message m = true /\
  dlt_message (message_bytes m ++ [xee; x44; x4c; x54; x01]) None (has_storage m)
  = POk (Item m) [xee; x44; x4c; x54; x01].

Example c01_ex_verbose_le : rt (ex_msg LE (PVerbose ex_args) (MLog Info) (Some ex_sh)).
Proof. split; vm_compute; reflexivity. Qed.
Example c01_ex_verbose_be : rt (ex_msg BE (PVerbose ex_args) (MAppTrace AState) None).
Proof. split; vm_compute; reflexivity. Qed.
Example c01_ex_nonverbose_le : rt (ex_msg LE (PNonVerbose 4294967295 []) (MLog (LInvalid 9)) None).
Proof. split; vm_compute; reflexivity. Qed.
Example c01_ex_nonverbose_be : rt (ex_msg BE (PNonVerbose 17 [x01; x02]) (MUnknown 5 3) (Some ex_sh)).
Proof. split; vm_compute; reflexivity. Qed.
Example c01_ex_nonverbose_noext_le : rt (ex_nonverbose_noext LE).
Proof. split; vm_compute; reflexivity. Qed.
Example c01_ex_nonverbose_noext_be : rt (ex_nonverbose_noext BE).
Proof. split; vm_compute; reflexivity. Qed.
Example c01_ex_control_le : rt (ex_msg LE (PControl CResponse [x00; x01]) (MControl CResponse) (Some ex_sh)).
Proof. split; vm_compute; reflexivity. Qed.
Example c01_ex_control_be : rt (ex_msg BE (PControl (CUnknown 200) []) (MControl (CUnknown 7)) None).
Proof. split; vm_compute; reflexivity. Qed.
Example c01_ex_nwtrace_le : rt (ex_msg LE (PNetworkTrace [[x01; x02]; []; [xff]]) (MNwTrace NCan) (Some ex_sh)).
Proof. split; vm_compute; reflexivity. Qed.
Example c01_ex_nwtrace_be : rt (ex_msg BE (PNetworkTrace [[x01; x02]; []; [xff]]) (MNwTrace (NUserDefined 9)) None).
Proof. split; vm_compute; reflexivity. Qed.

