(* C09 — filtering drops exactly the messages that fail the configured criteria.
   All statements are RELATIVE to the unfiltered parse, so they compose with the round trip C01
   (dlt_message (message_bytes m ++ rest) None sh = POk (Item m) rest). *)
From DltV.Model Require Import Bytes Nom Dlt Parse.
From DltV.Spec Require Import FilterSpec.
From DltV.Proofs Require Import FilterProofs.
Open Scope N_scope.

(* [spec_dropped] (Spec/FilterSpec.v) is the sentence of the property on the RAW configuration:
   numeric minimum level, id lists with duplicates, "smaller than the count" by the number of
   DISTINCT ids (length of nodup). *)
Theorem c09_filter : forall bs cfg sh m rest,
  dlt_message bs None sh = POk (Item m) rest ->
  dlt_message bs (Some (process_filter cfg)) sh =
    if spec_dropped cfg m
    then POk (FilteredOut (h_payload_length (m_header m))) rest
    else POk (Item m) rest.
Proof. exact filter_spec. Qed.
Check c09_filter : forall bs cfg sh m rest,
  dlt_message bs None sh = POk (Item m) rest ->
  dlt_message bs (Some (process_filter cfg)) sh =
    if spec_dropped cfg m
    then POk (FilteredOut (h_payload_length (m_header m))) rest
    else POk (Item m) rest.
Print Assumptions c09_filter.

(* converse direction: a filter only ever drops — every message delivered with ANY processed
   configuration (also a hand-built one) is the message of the unfiltered parse, same remainder *)
Theorem c09_filter_only_drops : forall bs pf sh m rest,
  dlt_message bs (Some pf) sh = POk (Item m) rest -> dlt_message bs None sh = POk (Item m) rest.
Proof. exact filter_only_drops. Qed.
Check c09_filter_only_drops : forall bs pf sh m rest,
  dlt_message bs (Some pf) sh = POk (Item m) rest -> dlt_message bs None sh = POk (Item m) rest.
Print Assumptions c09_filter_only_drops.

(* the same for an arbitrary (possibly hand-built) ProcessedDltFilterConfig, in terms of the
   decision procedure of parse.rs *)
Theorem c09_filter_processed : forall bs pf sh m rest,
  dlt_message bs None sh = POk (Item m) rest ->
  dlt_message bs (Some pf) sh =
    if filtered_out (m_ext m) (Some pf) (h_ecu (m_header m))
    then POk (FilteredOut (h_payload_length (m_header m))) rest
    else POk (Item m) rest.
Proof. exact filter_relative. Qed.
Check c09_filter_processed : forall bs pf sh m rest,
  dlt_message bs None sh = POk (Item m) rest ->
  dlt_message bs (Some pf) sh =
    if filtered_out (m_ext m) (Some pf) (h_ecu (m_header m))
    then POk (FilteredOut (h_payload_length (m_header m))) rest
    else POk (Item m) rest.
Print Assumptions c09_filter_processed.

(* message for message over a buffer: [apply_filter cfg (Item m)] is the marker with m's payload length if
   spec_dropped cfg m, else Item m.  The side condition says that the filtered parser does not succeed where
   the unfiltered one stopped (true for an empty or incomplete rest; it can fail to hold on a rest with a
   malformed payload, c09_hyp_needed). *)
Theorem c09_stream : forall cfg fuel bs sh l r,
  parse_all fuel bs None sh = (l, r) ->
  is_ok (dlt_message r (Some (process_filter cfg)) sh) = false ->
  parse_all fuel bs (Some (process_filter cfg)) sh = (map (apply_filter cfg) l, r) /\
  Forall (fun pm => exists m, pm = Item m) l.
Proof. exact filter_stream. Qed.
Check c09_stream : forall cfg fuel bs sh l r,
  parse_all fuel bs None sh = (l, r) ->
  is_ok (dlt_message r (Some (process_filter cfg)) sh) = false ->
  parse_all fuel bs (Some (process_filter cfg)) sh = (map (apply_filter cfg) l, r) /\
  Forall (fun pm => exists m, pm = Item m) l.
Print Assumptions c09_stream.

(* numeric minimum levels outside 1..6 mean no level filtering *)
Theorem c09_levels : forall cfg v,
  fc_min_log_level cfg = Some v -> (v = 0 \/ 7 <= v) -> pf_min_log_level (process_filter cfg) = None.
Proof. exact levels_no_filtering. Qed.
Check c09_levels : forall cfg v,
  fc_min_log_level cfg = Some v -> (v = 0 \/ 7 <= v) -> pf_min_log_level (process_filter cfg) = None.
Print Assumptions c09_levels.

(* The model has ONE conversion (process_filter, sets = duplicate-free lists).  Both Rust conversions
   build HashSet::from_iter over the same id sequence; what a HashSet exposes to `filtered_out` is
   `contains` and `len`, and these are determined by the raw list: *)
Theorem c09_conversions : forall l,
  (forall x, mem_bytes x (dedup l) = id_in x l) /\ length (dedup l) = distinct_count l /\ NoDup (dedup l).
Proof. exact conversions_agree. Qed.
Check c09_conversions : forall l,
  (forall x, mem_bytes x (dedup l) = id_in x l) /\ length (dedup l) = distinct_count l /\ NoDup (dedup l).
Print Assumptions c09_conversions.

(* hand-built configuration whose minimum level is LogLevel::Invalid(b): the table of dlt.rs:546-556 *)
Theorem c09_invalid_minimum : forall x n min,
  e_mtype x = MLog n ->
  (forall a b, level_number n = Some a -> level_number min = Some b ->
               skip_with_level x min = (b <? a)) /\
  (forall a, level_number n = Some a -> level_number min = None -> skip_with_level x min = true) /\
  (forall b, level_number n = None -> level_number min = Some b -> skip_with_level x min = false) /\
  (forall a b, n = LInvalid a -> min = LInvalid b -> skip_with_level x min = (a <? b)).
Proof. exact skip_with_level_cases. Qed.
Check c09_invalid_minimum : forall x n min,
  e_mtype x = MLog n ->
  (forall a b, level_number n = Some a -> level_number min = Some b ->
               skip_with_level x min = (b <? a)) /\
  (forall a, level_number n = Some a -> level_number min = None -> skip_with_level x min = true) /\
  (forall b, level_number n = None -> level_number min = Some b -> skip_with_level x min = false) /\
  (forall a b, n = LInvalid a -> min = LInvalid b -> skip_with_level x min = (a <? b)).
Print Assumptions c09_invalid_minimum.

(* ---------- non-vacuity ---------- *)
(* example inputs ex_info, ex_invalid_level, ex_ecu, ex_noext and cfg_level: end of Proofs/FilterProofs.v *)
Example c09_hyp_info : exists m, dlt_message ex_info None false = POk (Item m) [xee; xee].
Proof. eexists. vm_compute. reflexivity. Qed.
Example c09_hyp_noext : exists m, dlt_message ex_noext None false = POk (Item m) [xee].
Proof. eexists. vm_compute. reflexivity. Qed.

(* minimum WARN (3): INFO is less severe -> marker with the payload length 9 *)
Example c09_ex_level_drop :
  dlt_message ex_info (Some (process_filter (cfg_level 3))) false = POk (FilteredOut 9) [xee; xee].
Proof. vm_compute. reflexivity. Qed.
(* minimum INFO (4), 0, 7, 255: kept, identical to the unfiltered parse *)
Example c09_ex_level_keep :
  Forall (fun v => dlt_message ex_info (Some (process_filter (cfg_level v))) false
                   = dlt_message ex_info None false) [4; 5; 6; 0; 7; 255].
Proof. repeat (constructor; [vm_compute; reflexivity|]). constructor. Qed.
(* a message with an INVALID level is kept under the strictest valid minimum (FATAL): the sentence says
   "a log message with a VALID level less severe than the minimum" *)
Example c09_ex_invalid_level_kept :
  exists m, dlt_message ex_invalid_level (Some (process_filter (cfg_level 1))) false = POk (Item m) [xee; xee]
            /\ option_map e_mtype (m_ext m) = Some (MLog (LInvalid 9)).
Proof. eexists. split; vm_compute; reflexivity. Qed.
(* id sets, with duplicates in the raw lists *)
Example c09_ex_app_drop :
  dlt_message ex_info (Some (process_filter (mkFC None (Some [[x42]; [x42]]) None None 0 0))) false
  = POk (FilteredOut 9) [xee; xee].
Proof. vm_compute. reflexivity. Qed.
Example c09_ex_ctx_drop :
  dlt_message ex_info (Some (process_filter (mkFC None (Some [[x41]]) None (Some []) 0 0))) false
  = POk (FilteredOut 9) [xee; xee].
Proof. vm_compute. reflexivity. Qed.
Example c09_ex_ids_keep :
  dlt_message ex_info (Some (process_filter (mkFC (Some 4) (Some [[x42]; [x41]; [x41]]) (Some []) (Some [[x43]]) 9 9))) false
  = dlt_message ex_info None false.
Proof. vm_compute. reflexivity. Qed.
(* header ECU id absent: an ECU set (even the empty one) does not drop; present and not in the set: dropped *)
Example c09_ex_ecu_drop :
  dlt_message ex_ecu (Some (process_filter (mkFC None None (Some [[x45]]) None 0 0))) false
  = POk (FilteredOut 9) [xee; xee].
Proof. vm_compute. reflexivity. Qed.
Example c09_ex_ecu_keep :
  dlt_message ex_ecu (Some (process_filter (mkFC None None (Some [[x45]; [x45; x31]]) None 0 0))) false
  = dlt_message ex_ecu None false.
Proof. vm_compute. reflexivity. Qed.
(* no extended header: raw list ["A";"A"] denotes a set of ONE id; count 2 > 1 drops, count 1 keeps *)
Example c09_ex_noext_drop :
  dlt_message ex_noext (Some (process_filter (mkFC None (Some [[x41]; [x41]]) None None 2 0))) false
  = POk (FilteredOut 4) [xee].
Proof. vm_compute. reflexivity. Qed.
Example c09_ex_noext_keep :
  dlt_message ex_noext (Some (process_filter (mkFC (Some 1) (Some [[x41]; [x41]]) (Some []) (Some []) 1 0))) false
  = dlt_message ex_noext None false.
Proof. vm_compute. reflexivity. Qed.
Example c09_ex_levels : pf_min_log_level (process_filter (cfg_level 7)) = None
                        /\ pf_min_log_level (process_filter (cfg_level 6)) = Some Verbose.
Proof. split; reflexivity. Qed.

(* The hypothesis "the unfiltered parse succeeded" of c09_filter is needed: a dropped message's payload
   is skipped, not parsed, so an input whose payload is malformed (type info 0) is an error without a
   filter and a FilteredOut marker with one. *)
Example c09_hyp_needed :
  let bs := [x21; x00; x00; x17; x41; x01; x41; x00; x00; x00; x43; x00; x00; x00;
             x00; x00; x00; x00; x01; x02; x03; x04; x05; xee; xee] in
  dlt_message bs None false = PError /\
  dlt_message bs (Some (process_filter (cfg_level 3))) false = POk (FilteredOut 9) [xee; xee].
Proof. split; vm_compute; reflexivity. Qed.

(* three messages back to back (INFO, invalid level 9, no extended header), minimum WARN, app set {"A"} with
   declared count 1: the first is dropped, the other two are delivered unchanged *)
Example c09_ex_stream :
  let bs := firstn 23 ex_info ++ firstn 23 ex_invalid_level ++ firstn 8 ex_noext in
  let cfg := mkFC (Some 3) (Some [[x41]; [x41]]) None None 1 0 in
  exists m2 m3,
    parse_all 4 bs None false = ([Item (match dlt_message ex_info None false with POk (Item m) _ => m | _ => m2 end); Item m2; Item m3], [])
    /\ is_ok (dlt_message [] (Some (process_filter cfg)) false) = false
    /\ parse_all 4 bs (Some (process_filter cfg)) false = ([FilteredOut 9; Item m2; Item m3], []).
Proof. eexists. eexists. split; [vm_compute; reflexivity|]. split; vm_compute; reflexivity. Qed.
