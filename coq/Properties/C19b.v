(* C19b — last sentence of C19: "The 4-byte id fields (ECU id, application id, context id) obey the same
   rule."  Every id of every successfully parsed header / message IS the result of the fixed-size string
   extraction [zstring 4] (Model/Parse.v, = dlt_zero_terminated_string(_, 4)) applied at the offset of
   its 4-byte field; [c19b_field_value] (with c19_enough / c19_utf8 / c19_upto_nul of Properties/C19.v)
   then says that the id is the longest valid-UTF-8 prefix of the bytes that precede the first NUL among
   these 4 bytes (all 4 if there is none). *)
From DltV.Model Require Import Bytes Utf8 Nom Dlt Parse.
From DltV.Proofs Require Import ZString ParseLemmas Search Consumption IdFields.
Open Scope N_scope.

(* the rule, read backwards: whatever [zstring 4] returned was computed from exactly 4 bytes *)
Theorem c19b_field_value : forall s id r, zstring 4 s = POk id r ->
  4 <= len s /\ id = utf8_prefix (upto_nul (firstn (N.to_nat 4) s)) /\ r = skipn (N.to_nat 4) s.
Proof. exact (zstring_ok_inv 4). Qed.
Check c19b_field_value : forall s id r, zstring 4 s = POk id r ->
  4 <= len s /\ id = utf8_prefix (upto_nul (firstn (N.to_nat 4) s)) /\ r = skipn (N.to_nat 4) s.
Print Assumptions c19b_field_value.

(* standard header: HTYP, MCNT, LEN(2), then the ECU id — offset 4 *)
Theorem c19b_ecu : forall i h rest id,
  dlt_standard_header i = POk h rest -> h_ecu h = Some id -> exists r, zstring 4 (skipn 4 i) = POk id r.
Proof. exact ecu_is_field. Qed.
Check c19b_ecu : forall i h rest id,
  dlt_standard_header i = POk h rest -> h_ecu h = Some id -> exists r, zstring 4 (skipn 4 i) = POk id r.
Print Assumptions c19b_ecu.

(* extended header: MSIN, NOAR, then application id (offset 2) and context id (offset 6) *)
Theorem c19b_ext : forall i x rest,
  dlt_extended_header i = POk x rest ->
  exists r1 r2, zstring 4 (skipn 2 i) = POk (e_apid x) r1 /\ zstring 4 (skipn 6 i) = POk (e_ctid x) r2.
Proof. exact ext_ids_are_fields. Qed.
Check c19b_ext : forall i x rest,
  dlt_extended_header i = POk x rest ->
  exists r1 r2, zstring 4 (skipn 2 i) = POk (e_apid x) r1 /\ zstring 4 (skipn 6 i) = POk (e_ctid x) r2.
Print Assumptions c19b_ext.

(* storage header found behind k skipped bytes: pattern(4), seconds(4), microseconds(4), ECU id — offset k + 12 *)
Theorem c19b_storage : forall i sh k rest,
  dlt_storage_header i = POk (Some (sh, k)) rest ->
  exists r, zstring 4 (skipn (N.to_nat k + 12) i) = POk (sh_ecu sh) r.
Proof. exact storage_ecu_is_field. Qed.
Check c19b_storage : forall i sh k rest,
  dlt_storage_header i = POk (Some (sh, k)) rest ->
  exists r, zstring 4 (skipn (N.to_nat k + 12) i) = POk (sh_ecu sh) r.
Print Assumptions c19b_storage.

(* the message parser.  [located sh bs skip after] (Properties/C04.v): with storage headers the first
   pattern is at offset [skip] of [bs] and [after] is the input behind the 16-byte storage header; without,
   skip = 0 and after = bs.  [ids_are_fields] is pinned by c19b_ids_are_fields_def below: the storage-header
   ECU id exists iff the parser runs in storage-header mode and is the field at skip + 12; the header ECU id
   exists iff bit WEID (4) of the header-type byte is set and is the field at offset 4 of the standard
   header; application and context id exist iff bit UEH (1) is set and are the fields at offsets 2 and 6
   behind the standard header. *)
Theorem c19b_message : forall bs f sh m rest,
  dlt_message bs f sh = POk (Item m) rest ->
  exists skip after, located sh bs skip after /\ ids_are_fields sh bs m skip after.
Proof. exact message_ids_are_fields. Qed.
Check c19b_message : forall bs f sh m rest,
  dlt_message bs f sh = POk (Item m) rest ->
  exists skip after, located sh bs skip after /\ ids_are_fields sh bs m skip after.
Print Assumptions c19b_message.

Theorem c19b_ids_are_fields_def : forall sh bs m skip after,
  ids_are_fields sh bs m skip after <->
  (match m_storage m with
   | Some s => sh = true /\ exists r, zstring 4 (skipn (N.to_nat skip + 12) bs) = POk (sh_ecu s) r
   | None => sh = false
   end /\
   match h_ecu (m_header m) with
   | Some id => flag (htyp_of after) 4 = true /\ exists r, zstring 4 (skipn 4 after) = POk id r
   | None => flag (htyp_of after) 4 = false
   end /\
   match m_ext m with
   | Some x => flag (htyp_of after) 1 = true /\
               exists r1 r2,
                 zstring 4 (skipn (N.to_nat (calculate_standard_header_length (htyp_of after)) + 2) after)
                   = POk (e_apid x) r1 /\
                 zstring 4 (skipn (N.to_nat (calculate_standard_header_length (htyp_of after)) + 6) after)
                   = POk (e_ctid x) r2
   | None => flag (htyp_of after) 1 = false
   end).
Proof. intros. reflexivity. Qed.
Check c19b_ids_are_fields_def : forall sh bs m skip after,
  ids_are_fields sh bs m skip after <->
  (match m_storage m with
   | Some s => sh = true /\ exists r, zstring 4 (skipn (N.to_nat skip + 12) bs) = POk (sh_ecu s) r
   | None => sh = false
   end /\
   match h_ecu (m_header m) with
   | Some id => flag (htyp_of after) 4 = true /\ exists r, zstring 4 (skipn 4 after) = POk id r
   | None => flag (htyp_of after) 4 = false
   end /\
   match m_ext m with
   | Some x => flag (htyp_of after) 1 = true /\
               exists r1 r2,
                 zstring 4 (skipn (N.to_nat (calculate_standard_header_length (htyp_of after)) + 2) after)
                   = POk (e_apid x) r1 /\
                 zstring 4 (skipn (N.to_nat (calculate_standard_header_length (htyp_of after)) + 6) after)
                   = POk (e_ctid x) r2
   | None => flag (htyp_of after) 1 = false
   end).
Print Assumptions c19b_ids_are_fields_def.

(* ---------- examples (by evaluation) ---------- *)
(* junk 'X', storage header with ECU field 'E' 0xC3 NUL 'Z' (the NUL cuts "E\xC3", the dangling lead byte is
   dropped by the UTF-8 rule -> "E"); standard header HTYP 0x35 (UEH, WEID, WTMS, version 1), LEN 0x1a = 26,
   ECU field "AB" NUL 'C' -> "AB"; timestamp; extended header MSIN 0x41 (verbose, log info), NOAR 0,
   application id "APP" NUL, context id 'C' 0xFF 'X' 'Y' (invalid UTF-8 at index 1 -> "C"); no arguments;
   4 unparsed payload bytes *)
Definition ex_bs : list byte :=
  [x58;
   x44; x4c; x54; x01; x01; x00; x00; x00; x02; x00; x00; x00; x45; xc3; x00; x5a;
   x35; x07; x00; x1a; x41; x42; x00; x43; x00; x00; x00; x09;
   x41; x00; x41; x50; x50; x00; x43; xff; x58; x59;
   x01; x02; x03; x04;
   xee].

Definition ex_m : message :=
  mkMsg (Some (mkSH (mkTS 1 2) [x45]))
        (mkStd 1 LE true 7 (Some [x41; x42]) None (Some 9) 4)
        (Some (mkExt true 0 (MLog Info) [x41; x50; x50] [x43]))
        (PVerbose []).

Example c19b_ex_message : dlt_message ex_bs None true = POk (Item ex_m) [xee].
Proof. vm_compute. reflexivity. Qed.

Example c19b_ex_fields :
  zstring 4 (skipn (1 + 12) ex_bs) = POk [x45] (skipn 17 ex_bs) /\
  zstring 4 (skipn 4 (skipn 17 ex_bs)) = POk [x41; x42] (skipn 25 ex_bs) /\
  htyp_of (skipn 17 ex_bs) = 53 /\ calculate_standard_header_length 53 = 12 /\
  zstring 4 (skipn (12 + 2) (skipn 17 ex_bs)) = POk [x41; x50; x50] (skipn 35 ex_bs) /\
  zstring 4 (skipn (12 + 6) (skipn 17 ex_bs)) = POk [x43] (skipn 39 ex_bs).
Proof. repeat split; vm_compute; reflexivity. Qed.

(* the single header parsers on the same bytes *)
Example c19b_ex_headers :
  (exists rest, dlt_storage_header ex_bs = POk (Some (mkSH (mkTS 1 2) [x45], 1)) rest) /\
  (exists h rest, dlt_standard_header (skipn 17 ex_bs) = POk h rest /\ h_ecu h = Some [x41; x42]) /\
  (exists x rest, dlt_extended_header (skipn 29 ex_bs) = POk x rest /\ e_apid x = [x41; x50; x50] /\ e_ctid x = [x43]).
Proof.
  split; [|split].
  - eexists. vm_compute. reflexivity.
  - eexists. eexists. split; vm_compute; reflexivity.
  - eexists. eexists. split; [vm_compute; reflexivity|]. split; reflexivity.
Qed.

(* a message without any id: no storage header, HTYP 0x20 (no WEID, no UEH) *)
Example c19b_ex_no_ids :
  exists m, dlt_message [x20; x00; x00; x08; x01; x02; x03; x04] None false = POk (Item m) []
            /\ m_storage m = None /\ h_ecu (m_header m) = None /\ m_ext m = None.
Proof. eexists. split; [vm_compute; reflexivity|]. repeat split. Qed.
