(* Parse.v — model of src/parse.rs (slice-level parsers), function by function. *)
From DltV.Model Require Import Bytes RustInt Utf8 Nom Dlt.
Open Scope N_scope.

(* ---------- forward_to_next_storage_header (parse.rs:125-134) ----------
   memchr::memmem::Finder::find is modelled as naive first-occurrence search. *)
Fixpoint starts_with (p i : list byte) : bool :=
  match p, i with
  | [], _ => true
  | a :: p', b :: i' => byte_eqb a b && starts_with p' i'
  | _ :: _, [] => false
  end.
Fixpoint find_pattern (i : list byte) : option nat :=
  if starts_with pat_DLT1 i then Some O
  else match i with
       | [] => None
       | _ :: r => option_map S (find_pattern r)
       end.
Definition forward_to_next_storage_header (i : list byte) : option (N * list byte) :=
  match find_pattern i with
  | Some k => Some (N.of_nat k, skipn k i)
  | None => None
  end.

(* ---------- dlt_zero_terminated_string (parse.rs:323-343) ---------- *)
Definition zstring (size : N) (s : list byte) : pres (list byte) :=
  let* (content, rest_with_null) := take_while_0_n_not_nul size s in
  let res := utf8_prefix content in
  if size <? len content then PPanic            (* `size - content.len()` — never taken *)
  else
    let* (_, rest) := take (size - len content) rest_with_null in
    POk res rest.

Definition parse_ecu_id := zstring 4.

(* ---------- dlt_storage_header (parse.rs:139-170) ---------- *)
Definition dlt_storage_header (input : list byte) : pres (option (storage_header * N)) :=
  if len input <? 16 then PIncomplete None
  else match forward_to_next_storage_header input with
       | Some (consumed, rest) =>
         let* (_, i1) := tag [x44; x4c; x54] rest in
         let* (_, i2) := tag [x01] i1 in
         let* (secs, i3) := uint LE 4 i2 in
         let* (micros, i4) := uint LE 4 i3 in
         let* (ecu, after) := zstring 4 i4 in
         POk (Some (mkSH (mkTS secs micros) ecu, consumed)) after
       | None => POk None []
       end.

(* ---------- dlt_standard_header (parse.rs:230-269) ---------- *)
Definition dlt_standard_header (input : list byte) : pres std_header :=
  let* (htyp, i0) := u8 input in
  let* (mcnt, i1) := u8 i0 in
  let* (overall, i2) := uint BE 2 i1 in
  let* (ecu, i3) := (if flag htyp 4 then pmap Some (parse_ecu_id i2) else POk None i2) in
  let* (session, i4) := (if flag htyp 8 then pmap Some (uint BE 4 i3) else POk None i3) in
  let* (tms, i5) := (if flag htyp 16 then pmap Some (uint BE 4 i4) else POk None i4) in
  let all_headers := calculate_all_headers_length htyp in
  if overall <? all_headers then PError
  else
    POk (mkStd (N.land (N.shiftr htyp 5) 7)
               (if flag htyp 2 then BE else LE)
               (flag htyp 1) mcnt ecu session tms (overall - all_headers)) i5.

(* ---------- dlt_extended_header (parse.rs:271-312); MessageType::try_from never fails ---------- *)
Definition dlt_extended_header (input : list byte) : pres ext_header :=
  let* (msin, i0) := u8 input in
  let* (noar, i1) := u8 i0 in
  let* (apid, i2) := parse_ecu_id i1 in
  let* (ctid, i3) := parse_ecu_id i2 in
  POk (mkExt (msin_verbose msin) noar (message_type_decode msin) apid ctid) i3.

(* ---------- argument pieces (parse.rs:345-526) ---------- *)
Definition dlt_variable_name (e : endian) (input : list byte) : pres (list byte) :=
  let* (size, i) := uint e 2 input in
  zstring size i.

Definition dlt_variable_name_and_unit (e : endian) (t : type_info) (input : list byte)
  : pres (option (list byte) * option (list byte)) :=
  if ti_var_info t then
    let* (name_size, i1) := uint e 2 input in
    let* (unit_size, i2) := uint e 2 i1 in
    let* (name, i3) := zstring name_size i2 in
    let* (unit, rest) := zstring unit_size i3 in
    POk (Some name, Some unit) rest
  else POk (None, None) input.

Definition dlt_uint (e : endian) (w : type_length) (i : list byte) : pres value :=
  match w with
  | BL8 => pmap VU8 (u8 i)
  | BL16 => pmap VU16 (uint e 2 i)
  | BL32 => pmap VU32 (uint e 4 i)
  | BL64 => pmap VU64 (uint e 8 i)
  | BL128 => pmap VU128 (uint e 16 i)
  end.
Definition dlt_sint (e : endian) (w : type_length) (i : list byte) : pres value :=
  match w with
  | BL8 => pmap VI8 (sint BE 1 i)
  | BL16 => pmap VI16 (sint e 2 i)
  | BL32 => pmap VI32 (sint e 4 i)
  | BL64 => pmap VI64 (sint e 8 i)
  | BL128 => pmap VI128 (sint e 16 i)
  end.
Definition dlt_fint (e : endian) (w : float_width) (i : list byte) : pres value :=
  match w with
  | W32 => pmap VF32 (uint e 4 i)
  | W64 => pmap VF64 (uint e 8 i)
  end.

Definition dlt_type_info (e : endian) (input : list byte) : pres type_info :=
  let* (info, i) := uint e 4 input in
  match ti_decode info with
  | Some t => POk t i
  | None => PError
  end.

Definition dlt_fixed_point (e : endian) (w : float_width) (input : list byte) : pres fixed_point :=
  let* (q, i) := uint e 4 input in
  match w with
  | W32 => let* (o, rest) := sint e 4 i in POk (mkFP q (FI32 o)) rest
  | W64 => let* (o, rest) := sint e 8 i in POk (mkFP q (FI64 o)) rest
  end.

(* ---------- dlt_argument (parse.rs:528-679) ---------- *)
Definition dlt_argument (e : endian) (input : list byte) : pres argument :=
  let* (t, i) := dlt_type_info e input in
  match ti_kind_of t with
  | KSigned w =>
    let* (nu, before_val) := dlt_variable_name_and_unit e t i in
    let* (v, rest) := dlt_sint e w before_val in
    POk (mkArg t (fst nu) (snd nu) None v) rest
  | KSignedFixed w =>
    let* (nu, before_val) := dlt_variable_name_and_unit e t i in
    let* (fp, after_fp) := dlt_fixed_point e w before_val in
    let* (v, rest) := dlt_sint e (float_width_to_type_length w) after_fp in
    POk (mkArg t (fst nu) (snd nu) (Some fp) v) rest
  | KUnsigned w =>
    let* (nu, before_val) := dlt_variable_name_and_unit e t i in
    let* (v, rest) := dlt_uint e w before_val in
    POk (mkArg t (fst nu) (snd nu) None v) rest
  | KUnsignedFixed w =>
    let* (nu, before_val) := dlt_variable_name_and_unit e t i in
    let* (fp, after_fp) := dlt_fixed_point e w before_val in
    let* (v, rest) := dlt_uint e (float_width_to_type_length w) after_fp in
    POk (mkArg t (fst nu) (snd nu) (Some fp) v) rest
  | KFloat w =>
    let* (nu, before_val) := dlt_variable_name_and_unit e t i in
    let* (v, rest) := dlt_fint e w before_val in
    POk (mkArg t (fst nu) (snd nu) None v) rest
  | KRaw =>
    let* (cnt, i2) := uint e 2 i in
    let* (name, i3) := (if ti_var_info t then pmap Some (dlt_variable_name e i2) else POk None i2) in
    let* (bs, rest) := take cnt i3 in
    POk (mkArg t name None None (VRaw bs)) rest
  | KBool =>
    let* (name, i2) := (if ti_var_info t then pmap Some (dlt_variable_name e i) else POk None i) in
    let* (b, rest) := u8 i2 in
    POk (mkArg t name None None (VBool b)) rest
  | KString =>
    let* (size, i2) := uint e 2 i in
    let* (name, i3) := (if ti_var_info t then pmap Some (dlt_variable_name e i2) else POk None i2) in
    let* (s, rest) := zstring size i3 in
    POk (mkArg t name None None (VString s)) rest
  end.

(* ---------- dlt_payload (parse.rs:686-746) ---------- *)
Definition raw_slices (args : list argument) : list (list byte) :=
  flat_map (fun a => match a_value a with VRaw bs => [bs] | _ => [] end) args.

Definition dlt_payload (e : endian) (input : list byte) (verbose : bool) (payload_length : N)
    (arg_cnt : N) (msg_type : option message_type) : pres payload :=
  if verbose then
    let* (pl, rest) := take payload_length input in
    match count (dlt_argument e) (N.to_nat arg_cnt) pl with
    | POk args _ =>
      match msg_type with
      | Some (MNwTrace _) => POk (PNetworkTrace (raw_slices args)) rest
      | _ => POk (PVerbose args) rest
      end
    | PIncomplete _ => PError
    | PError => PError
    | PFailure => PError           (* add_context turns Failure into Error *)
    | PPanic => PPanic
    end
  else
    match msg_type with
    | Some (MControl _) =>
      if payload_length <? 1 then PFailure
      else
        let* (id, i1) := u8_complete input in
        let* (bs, rest) := take (payload_length - 1) i1 in
        POk (PControl (control_from_value id) bs) rest
    | _ =>
      if payload_length <? 4 then PFailure
      else
        let* (id, i1) := uint e 4 input in
        let* (bs, rest) := take (payload_length - 4) i1 in
        POk (PNonVerbose id bs) rest
    end.

(* ---------- filtering (filtering.rs, parse.rs:917-967, dlt.rs:546-556) ---------- *)
Record filter_config := mkFC {            (* DltFilterConfig *)
  fc_min_log_level : option N;
  fc_app_ids : option (list (list byte));
  fc_ecu_ids : option (list (list byte));
  fc_context_ids : option (list (list byte));
  fc_app_id_count : Z;
  fc_context_id_count : Z }.
Record processed_filter := mkPF {         (* ProcessedDltFilterConfig; HashSet = duplicate-free list *)
  pf_min_log_level : option log_level;
  pf_app_ids : option (list (list byte));
  pf_ecu_ids : option (list (list byte));
  pf_context_ids : option (list (list byte));
  pf_app_id_count : Z;
  pf_context_id_count : Z }.

Definition mem_bytes (x : list byte) (l : list (list byte)) : bool := existsb (bytes_eqb x) l.
Fixpoint dedup (l : list (list byte)) : list (list byte) :=
  match l with
  | [] => []
  | x :: r => if mem_bytes x r then dedup r else x :: dedup r
  end.
Definition u8_to_log_level (v : N) : option log_level :=
  match v with
  | 1 => Some Fatal | 2 => Some LError | 3 => Some Warn | 4 => Some Info
  | 5 => Some Debug | 6 => Some Verbose | _ => None
  end.
Definition process_filter (c : filter_config) : processed_filter :=
  mkPF (match fc_min_log_level c with Some v => u8_to_log_level v | None => None end)
       (option_map dedup (fc_app_ids c)) (option_map dedup (fc_ecu_ids c))
       (option_map dedup (fc_context_ids c))
       (fc_app_id_count c) (fc_context_id_count c).

(* derived PartialOrd on LogLevel: variant index, then payload *)
Definition log_level_index (l : log_level) : N :=
  match l with Fatal => 0 | LError => 1 | Warn => 2 | Info => 3 | Debug => 4 | Verbose => 5 | LInvalid _ => 6 end.
Definition skip_with_level (x : ext_header) (level : log_level) : bool :=
  match e_mtype x with
  | MLog n =>
    match n, level with
    | LInvalid a, LInvalid b => a <? b
    | LInvalid _, _ => false
    | _, LInvalid _ => true
    | _, _ => log_level_index level <? log_level_index n
    end
  | _ => false
  end.

Definition filtered_out (x : option ext_header) (f : option processed_filter)
    (ecu : option (list byte)) : bool :=
  match f with
  | None => false
  | Some fc =>
    match x with
    | Some h =>
      (match pf_min_log_level fc with Some l => skip_with_level h l | None => false end)
      || (match pf_app_ids fc with Some s => negb (mem_bytes (e_apid h) s) | None => false end)
      || (match pf_context_ids fc with Some s => negb (mem_bytes (e_ctid h) s) | None => false end)
      || (match pf_ecu_ids fc, ecu with
          | Some s, Some id => negb (mem_bytes id s)
          | _, _ => false
          end)
    | None =>
      (match pf_app_ids fc with Some s => (Z.of_N (len s) <? pf_app_id_count fc)%Z | None => false end)
      || (match pf_context_ids fc with Some s => (Z.of_N (len s) <? pf_context_id_count fc)%Z | None => false end)
    end
  end.

(* ---------- validated_payload_length (parse.rs:969-988) ---------- *)
Inductive vpl := VplOk (n : N) | VplIncomplete (needed : option N) | VplError.
Definition validated_payload_length (h : std_header) (remaining : N) : vpl :=
  let message_length := overall_length h in
  let headers_length := calculate_all_headers_length (header_type_byte h) in
  if message_length <? headers_length then VplError
  else if remaining <? message_length then VplIncomplete (needed_new (message_length - remaining))
  else VplOk (message_length - headers_length).

(* ---------- dlt_message (parse.rs:822-915) ---------- *)
Inductive parsed_message := Item (m : message) | FilteredOut (n : N) | Invalid.

(* everything after the (optional) storage header *)
Definition dlt_message_after (shs : option (storage_header * N)) (after_sh : list byte)
    (f : option processed_filter) : pres parsed_message :=
  let* (header, after_std) := dlt_standard_header after_sh in
  let plr := validated_payload_length header (len after_sh) in
  let* (ext, after_headers) :=
    (if h_has_ext header then pmap Some (dlt_extended_header after_std) else POk None after_std) in
  match plr with
  | VplIncomplete n => PIncomplete n
  | VplError => POk Invalid after_std
  | VplOk payload_length =>
    if filtered_out ext f (h_ecu header) then
      let* (_, after_message) := take payload_length after_headers in
      POk (FilteredOut payload_length) after_message
    else
      let verbose := match ext with Some x => e_verbose x | None => false end in
      let noar := match ext with Some x => e_noar x | None => 0 end in
      let mt := option_map e_mtype ext in
      let* (p, i) := dlt_payload (h_endian header) after_headers verbose payload_length noar mt in
      POk (Item (mkMsg (option_map fst shs) header ext p)) i
  end.

Definition dlt_message (input : list byte) (f : option processed_filter) (with_sh : bool)
  : pres parsed_message :=
  let* (shs, after_sh) :=
    (if with_sh then dlt_storage_header input else POk None input) in
  dlt_message_after shs after_sh f.

(* ---------- skip_storage_header / dlt_consume_msg (parse.rs:992-1018) ---------- *)
Definition skip_storage_header (input : list byte) : pres N :=
  let* (_, i1) := tag [x44; x4c; x54] input in
  let* (_, i2) := tag [x01] i1 in
  let* (_, i) := take 12 i2 in
  if len input <? len i then PPanic                     (* `input.len() - i.len()` *)
  else if len input - len i =? 16 then POk 16 i else PError.

Definition dlt_consume_msg (input : list byte) : pres (option N) :=
  match input with
  | [] => POk None []
  | _ =>
    let* (skipped, after_sh) := skip_storage_header input in
    let* (header, _) := dlt_standard_header after_sh in
    let overall := overall_length header in
    let* (_, after_message) := take overall after_sh in
    POk (Some (skipped + overall)) after_message
  end.

(* ---------- parse_length (parse.rs:1230-1233) ---------- *)
Definition parse_length (input : list byte) : pres N :=
  let* (_, i) := take 2 input in
  uint BE 2 i.

(* ---------- construct_arguments (parse.rs:1022-1227) ----------
   Result: Some args | None (Err).  Offsets are usize sums bounded by data.len(); the
   slice expressions are guarded by the explicit length checks and are written as
   firstn/skipn of the checked ranges. *)
Definition slice (data : list byte) (a b : N) : list byte :=
  firstn (N.to_nat (b - a)) (skipn (N.to_nat a) data).

Inductive cres := COk (args : list argument) | CErr | CPanic.

Definition pres_value (x : pres value) : option value :=
  match x with POk v _ => Some v | _ => None end.

Definition construct_one (e : endian) (t : type_info) (data : list byte) (offset : N)
  : option (value * option fixed_point * N) :=     (* None = Err *)
  match ti_kind_of t with
  | KString | KRaw =>
    if len data <? offset + 2 then None
    else
      let length := get_uint e (slice data offset (offset + 2)) in
      let offset := offset + 2 in
      if len data <? offset + length then None
      else
        let bs := slice data offset (offset + length) in
        match ti_kind_of t with
        | KString => if valid_utf8 bs then Some (VString bs, None, offset + length) else None
        | _ => Some (VRaw bs, None, offset + length)
        end
  | KBool =>
    let offset := offset + 1 in
    if len data <? offset then None
    else Some (VBool (b2n (nth (N.to_nat (offset - 1)) data x00)), None, offset)
  | KFloat w =>
    let length := N.of_nat (float_width_bytes w) in
    if len data <? offset + length then None
    else match pres_value (dlt_fint e w (slice data offset (offset + length))) with
         | Some v => Some (v, None, offset + length)
         | None => None
         end
  | KSigned l =>
    let bl := N.of_nat (type_length_bytes l) in
    if len data <? offset + bl then None
    else match pres_value (dlt_sint e l (skipn (N.to_nat offset) data)) with
         | Some v => Some (v, None, offset + bl)
         | None => None
         end
  | KUnsigned l =>
    let bl := N.of_nat (type_length_bytes l) in
    if len data <? offset + bl then None
    else match pres_value (dlt_uint e l (skipn (N.to_nat offset) data)) with
         | Some v => Some (v, None, offset + bl)
         | None => None
         end
  | KSignedFixed w =>
    let bl := N.of_nat (float_width_bytes w) in
    if len data <? offset + bl then None
    else match dlt_fixed_point e w (slice data offset (offset + bl)) with
         | POk fp value_offset =>
           match pres_value (dlt_sint e (float_width_to_type_length w) value_offset) with
           | Some v => Some (v, Some fp, offset + bl)
           | None => None
           end
         | _ => None
         end
  | KUnsignedFixed w =>
    let bl := N.of_nat (float_width_bytes w) in
    if len data <? offset + bl then None
    else match dlt_fixed_point e w (slice data offset (offset + bl)) with
         | POk fp value_offset =>
           match pres_value (dlt_uint e (float_width_to_type_length w) value_offset) with
           | Some v => Some (v, Some fp, offset + bl)
           | None => None
           end
         | _ => None
         end
  end.

Fixpoint construct_from (e : endian) (tys : list type_info) (data : list byte) (offset : N)
  : option (list argument) :=
  match tys with
  | [] => Some []
  | t :: tys' =>
    match construct_one e t data offset with
    | Some (v, fp, offset') =>
      match construct_from e tys' data offset' with
      | Some args => Some (mkArg t None None fp v :: args)
      | None => None
      end
    | None => None
    end
  end.
Definition construct_arguments (e : endian) (tys : list type_info) (data : list byte)
  : option (list argument) := construct_from e tys data 0.

(* ---------- repeated parsing of a buffer (what a caller of dlt_message does) ---------- *)
Fixpoint parse_all (fuel : nat) (input : list byte) (f : option processed_filter) (with_sh : bool)
  : list parsed_message * list byte :=
  match fuel with
  | O => ([], input)
  | S fuel' =>
    match dlt_message input f with_sh with
    | POk pm rest =>
      let '(l, r) := parse_all fuel' rest f with_sh in (pm :: l, r)
    | _ => ([], input)
    end
  end.
