(* Dlt.v — model of src/dlt.rs: data types, enum codes, TypeInfo <-> u32, header-type
   byte, length helpers, every as_bytes, Argument::len/valid, Message::new/byte_len/
   add_storage_header, DltTimeStamp::from_ms/from_us.

   Conventions: integers are N/Z; a value of Rust type uK is an N < 2^K and iK a Z in
   range (well-formedness, Spec/WellFormed.v).  Strings are [list byte] (UTF-8).  f32/f64
   are their bit patterns.  Functions compute the *release* result (wrapping `as` casts,
   wrapping u16 arithmetic); the debug-build overflow panics are the separate boolean
   predicates [*_overflows]. *)
From DltV.Model Require Import Bytes RustInt.
Open Scope N_scope.

(* ---------- enumerations ---------- *)
Inductive log_level := Fatal | LError | Warn | Info | Debug | Verbose | LInvalid (n : N).
Inductive app_trace := AVariable | AFunctionIn | AFunctionOut | AState | AVfb | AInvalid (n : N).
Inductive nw_trace := NIpc | NCan | NFlexray | NMost | NEthernet | NSomeip | NInvalid | NUserDefined (n : N).
Inductive control_type := CRequest | CResponse | CUnknown (n : N).
Inductive message_type :=
| MLog (l : log_level) | MAppTrace (a : app_trace) | MNwTrace (n : nw_trace)
| MControl (c : control_type) | MUnknown (mstp mtin : N).

Inductive type_length := BL8 | BL16 | BL32 | BL64 | BL128.
Inductive float_width := W32 | W64.
Inductive ti_kind :=
| KBool | KSigned (l : type_length) | KSignedFixed (w : float_width)
| KUnsigned (l : type_length) | KUnsignedFixed (w : float_width)
| KFloat (w : float_width) | KString | KRaw.
Inductive string_coding := SAscii | SUtf8 | SReserved (n : N).

Record type_info := mkTI {
  ti_kind_of : ti_kind; ti_coding : string_coding;
  ti_var_info : bool; ti_trace_info : bool }.

Inductive fp_value := FI32 (z : Z) | FI64 (z : Z).
Record fixed_point := mkFP { fp_quant : N (* f32 bits *); fp_offset : fp_value }.

Inductive value :=
| VBool (n : N) | VU8 (n : N) | VU16 (n : N) | VU32 (n : N) | VU64 (n : N) | VU128 (n : N)
| VI8 (z : Z) | VI16 (z : Z) | VI32 (z : Z) | VI64 (z : Z) | VI128 (z : Z)
| VF32 (bits : N) | VF64 (bits : N)
| VString (s : list byte) | VRaw (bs : list byte).

Record argument := mkArg {
  a_ti : type_info; a_name : option (list byte); a_unit : option (list byte);
  a_fp : option fixed_point; a_value : value }.

Inductive payload :=
| PVerbose (args : list argument)
| PNonVerbose (id : N) (bs : list byte)
| PControl (ct : control_type) (bs : list byte)
| PNetworkTrace (slices : list (list byte)).

Record timestamp := mkTS { ts_secs : N; ts_micros : N }.
Record storage_header := mkSH { sh_ts : timestamp; sh_ecu : list byte }.
Record std_header := mkStd {
  h_version : N; h_endian : endian; h_has_ext : bool; h_mcnt : N;
  h_ecu : option (list byte); h_session : option N; h_timestamp : option N;
  h_payload_length : N }.
Record ext_header := mkExt {
  e_verbose : bool; e_noar : N; e_mtype : message_type;
  e_apid : list byte; e_ctid : list byte }.
Record message := mkMsg {
  m_storage : option storage_header; m_header : std_header;
  m_ext : option ext_header; m_payload : payload }.

Record ext_config := mkExtCfg { c_mtype : message_type; c_apid : list byte; c_ctid : list byte }.
Record message_config := mkCfg {
  c_version : N; c_counter : N; c_endian : endian;
  c_ecu : option (list byte); c_session : option N; c_timestamp : option N;
  c_payload : payload; c_ext : option ext_config }.

(* ---------- DltTimeStamp::from_ms / from_us (dlt.rs:191-204) ---------- *)
Definition from_ms (ms : N) : chk timestamp :=
  chk_bind (mul_chk 32 (wrap 32 (ms mod 1000)) 1000) (fun us =>
  Val (mkTS (wrap 32 (ms / 1000)) us)).
Definition from_us (us : N) : chk timestamp :=
  Val (mkTS (wrap 32 (us / 1000000)) (wrap 32 (us mod 1000000))).

(* ---------- constants ---------- *)
Definition STORAGE_HEADER_LENGTH : N := 16.
Definition HEADER_MIN_LENGTH : N := 4.
Definition EXTENDED_HEADER_LENGTH : N := 10.
Definition DEFAULT_ECU_ID : list byte := [x45; x43; x55].   (* "ECU" *)

Definition testbit (n : N) (i : N) : bool := N.testbit n i.
Definition u8shl (n k : N) : N := (N.shiftl n k) mod 256.     (* u8 << k: high bits drop *)

(* ---------- message-info codes (dlt.rs:1671-1901) ---------- *)
Definition log_level_code (l : log_level) : N :=
  match l with
  | Fatal => 16 | LError => 32 | Warn => 48 | Info => 64 | Debug => 80 | Verbose => 96
  | LInvalid v => u8shl (N.land v 15) 4
  end.
Definition app_trace_code (a : app_trace) : N :=
  match a with
  | AVariable => 16 | AFunctionIn => 32 | AFunctionOut => 48 | AState => 64 | AVfb => 80
  | AInvalid n => u8shl n 4
  end.
Definition nw_trace_code (t : nw_trace) : N :=
  match t with
  | NInvalid => 0 | NIpc => 16 | NCan => 32 | NFlexray => 48 | NMost => 64
  | NEthernet => 80 | NSomeip => 96 | NUserDefined v => u8shl v 4
  end.
Definition control_type_code (c : control_type) : N :=
  match c with CRequest => 16 | CResponse => 32 | CUnknown n => u8shl n 4 end.
Definition message_type_code (t : message_type) : N :=
  match t with
  | MLog x => log_level_code x
  | MAppTrace x => N.lor 2 (app_trace_code x)
  | MNwTrace x => N.lor 4 (nw_trace_code x)
  | MControl x => N.lor 6 (control_type_code x)
  | MUnknown mstp mtin => N.lor (u8shl mstp 1) (u8shl mtin 4)
  end.
Definition msin_encode (t : message_type) (verbose : bool) : N :=
  N.lor (message_type_code t) (if verbose then 1 else 0).

Definition log_level_decode (msin : N) : log_level :=
  match N.shiftr msin 4 with
  | 1 => Fatal | 2 => LError | 3 => Warn | 4 => Info | 5 => Debug | 6 => Verbose
  | raw => LInvalid raw
  end.
Definition app_trace_decode (msin : N) : app_trace :=
  match N.shiftr msin 4 with
  | 1 => AVariable | 2 => AFunctionIn | 3 => AFunctionOut | 4 => AState | 5 => AVfb
  | n => AInvalid n
  end.
Definition nw_trace_decode (msin : N) : nw_trace :=
  match N.shiftr msin 4 with
  | 0 => NInvalid | 1 => NIpc | 2 => NCan | 3 => NFlexray | 4 => NMost | 5 => NEthernet
  | 6 => NSomeip | n => NUserDefined n
  end.
Definition control_type_decode (msin : N) : control_type :=
  match N.shiftr msin 4 with 1 => CRequest | 2 => CResponse | n => CUnknown n end.
Definition message_type_decode (msin : N) : message_type :=
  match N.land (N.shiftr msin 1) 7 with
  | 0 => MLog (log_level_decode msin)
  | 1 => MAppTrace (app_trace_decode msin)
  | 2 => MNwTrace (nw_trace_decode msin)
  | 3 => MControl (control_type_decode msin)
  | v => MUnknown v (N.land (N.shiftr msin 4) 15)
  end.
Definition msin_verbose (msin : N) : bool := negb (N.land msin 1 =? 0).

(* ControlType::value / from_value — the service id byte of a control payload *)
Definition control_value (c : control_type) : N :=
  match c with CRequest => 1 | CResponse => 2 | CUnknown n => n end.
Definition control_from_value (t : N) : control_type :=
  match t with 1 => CRequest | 2 => CResponse | t => CUnknown t end.

(* ---------- header-type byte (dlt.rs:270-296, parse.rs:230-269) ---------- *)
Definition htyp_encode (has_ext : bool) (e : endian) (weid wsid wtms : bool) (version : N) : N :=
  N.lor (N.lor (N.lor (N.lor (N.lor
    (if has_ext then 1 else 0)
    (match e with BE => 2 | LE => 0 end))
    (if weid then 4 else 0))
    (if wsid then 8 else 0))
    (if wtms then 16 else 0))
    (u8shl (N.land version 7) 5).
Definition header_type_byte (h : std_header) : N :=
  htyp_encode (h_has_ext h) (h_endian h)
    (match h_ecu h with Some _ => true | None => false end)
    (match h_session h with Some _ => true | None => false end)
    (match h_timestamp h with Some _ => true | None => false end)
    (h_version h).
Definition flag (b mask : N) : bool := negb (N.land b mask =? 0).
Definition calculate_standard_header_length (htyp : N) : N :=
  4 + (if flag htyp 4 then 4 else 0) + (if flag htyp 8 then 4 else 0) + (if flag htyp 16 then 4 else 0).
Definition calculate_all_headers_length (htyp : N) : N :=
  calculate_standard_header_length htyp + (if flag htyp 1 then 10 else 0).

(* StandardHeader::overall_length — u16 arithmetic; release result and debug overflow *)
Definition overall_length_raw (h : std_header) : N :=
  4 + (match h_ecu h with Some _ => 4 | None => 0 end)
    + (match h_session h with Some _ => 4 | None => 0 end)
    + (match h_timestamp h with Some _ => 4 | None => 0 end)
    + (if h_has_ext h then 10 else 0)
    + h_payload_length h.
Definition overall_length (h : std_header) : N := overall_length_raw h mod 65536.
Definition overall_length_overflows (h : std_header) : bool := 65536 <=? overall_length_raw h.

(* ---------- type info (dlt.rs:772-897) ---------- *)
Definition type_length_bits (l : type_length) : N :=
  match l with BL8 => 1 | BL16 => 2 | BL32 => 3 | BL64 => 4 | BL128 => 5 end.
Definition float_width_bits (w : float_width) : N := match w with W32 => 3 | W64 => 4 end.
Definition type_length_bytes (l : type_length) : nat :=
  match l with BL8 => 1 | BL16 => 2 | BL32 => 4 | BL64 => 8 | BL128 => 16 end%nat.
Definition float_width_bytes (w : float_width) : nat := match w with W32 => 4 | W64 => 8 end%nat.
Definition float_width_to_type_length (w : float_width) : type_length :=
  match w with W32 => BL32 | W64 => BL64 end.
Definition is_fixed_point (k : ti_kind) : bool :=
  match k with KSignedFixed _ | KUnsignedFixed _ => true | _ => false end.

Definition ti_encode (t : type_info) : N :=
  let len_bits :=
    match ti_kind_of t with
    | KFloat w | KSignedFixed w | KUnsignedFixed w => float_width_bits w
    | KSigned l | KUnsigned l => type_length_bits l
    | _ => 0
    end in
  let kind_bits :=
    match ti_kind_of t with
    | KBool => 16
    | KSigned _ | KSignedFixed _ => 32
    | KUnsigned _ | KUnsignedFixed _ => 64
    | KFloat _ => 128
    | KString => 512
    | KRaw => 1024
    end in
  let coding_bits :=
    match ti_coding t with
    | SAscii => 0
    | SUtf8 => N.shiftl 1 15
    | SReserved v => N.shiftl (N.land 7 v) 15
    end in
  N.lor (N.lor (N.lor (N.lor (N.lor len_bits kind_bits)
    (if ti_var_info t then 2048 else 0))
    (if is_fixed_point (ti_kind_of t) then 4096 else 0))
    (if ti_trace_info t then 8192 else 0))
    coding_bits.

Definition type_len_decode (info : N) : option type_length :=
  match N.land info 15 with
  | 1 => Some BL8 | 2 => Some BL16 | 3 => Some BL32 | 4 => Some BL64 | 5 => Some BL128
  | _ => None
  end.
Definition type_len_float_decode (info : N) : option float_width :=
  match N.land info 15 with 3 => Some W32 | 4 => Some W64 | _ => None end.

Definition ti_decode (info : N) : option type_info :=
  let is_fp := negb (N.land info 4096 =? 0) in
  let kind :=
    match N.land (N.shiftr info 4) 127 with
    | 1 => Some KBool
    | 2 => if is_fp then option_map KSignedFixed (type_len_float_decode info)
           else option_map KSigned (type_len_decode info)
    | 4 => if is_fp then option_map KUnsignedFixed (type_len_float_decode info)
           else option_map KUnsigned (type_len_decode info)
    | 8 => option_map KFloat (type_len_float_decode info)
    | 32 => Some KString
    | 64 => Some KRaw
    | _ => None
    end in
  let coding :=
    match N.land (N.shiftr info 15) 7 with
    | 0 => SAscii | 1 => SUtf8 | v => SReserved v
    end in
  option_map (fun k => mkTI k coding (negb (N.land info 2048 =? 0)) (negb (N.land info 8192 =? 0))) kind.

Definition ti_bytes (e : endian) (t : type_info) : list byte := put_uint e 4 (ti_encode t).

(* ---------- serialisation ---------- *)
Definition zeros (n : nat) : list byte := repeat x00 n.
(* BytesMutExt::put_zero_terminated_string *)
Definition put_zstring (s : list byte) (max : nat) : list byte := s ++ zeros (max - length s).

Definition u16_len_plus1 (s : list byte) : N := (len s mod 65536 + 1) mod 65536.
Definition len_plus1_overflows (s : list byte) : bool := (len s mod 65536 =? 65535).

Definition storage_header_bytes (s : storage_header) : list byte :=
  pat_DLT1 ++ put_uint LE 4 (ts_secs (sh_ts s)) ++ put_uint LE 4 (ts_micros (sh_ts s))
  ++ put_zstring (sh_ecu s) 4.

Definition std_header_bytes (h : std_header) : list byte :=
  [n2b (header_type_byte h); n2b (h_mcnt h)] ++ put_uint BE 2 (overall_length h)
  ++ (match h_ecu h with Some id => put_zstring id 4 | None => [] end)
  ++ (match h_session h with Some v => put_uint BE 4 v | None => [] end)
  ++ (match h_timestamp h with Some v => put_uint BE 4 v | None => [] end).

Definition ext_header_bytes (x : ext_header) : list byte :=
  [n2b (msin_encode (e_mtype x) (e_verbose x)); n2b (e_noar x)]
  ++ put_zstring (e_apid x) 4 ++ put_zstring (e_ctid x) 4.

Definition fp_offset_bytes (e : endian) (o : fp_value) : list byte :=
  match o with FI32 z => put_sint e 4 z | FI64 z => put_sint e 8 z end.
Definition fp_bytes (e : endian) (fp : option fixed_point) : list byte :=
  match fp with
  | Some f => put_uint e 4 (fp_quant f) ++ fp_offset_bytes e (fp_offset f)
  | None => []
  end.

(* Argument::mut_buf_with_typeinfo_name *)
Definition buf_ti_name (e : endian) (t : type_info) (name : option (list byte)) : list byte :=
  ti_bytes e t ++
  match name with
  | Some n => put_uint e 2 (u16_len_plus1 n) ++ n ++ [x00]
  | None => []
  end.

(* Argument::mut_buf_with_typeinfo_name_unit *)
Definition buf_ti_name_unit (e : endian) (t : type_info) (name unit : option (list byte))
    (fp : option fixed_point) : list byte :=
  ti_bytes e t ++
  (if ti_var_info t then
     put_uint e 2 (match name with Some n => u16_len_plus1 n | None => 1 end)
     ++ put_uint e 2 (match unit with Some u => u16_len_plus1 u | None => 1 end)
     ++ (match name with Some n => n ++ [x00] | None => [x00] end)
     ++ (match unit with Some u => u ++ [x00] | None => [x00] end)
   else [])
  ++ fp_bytes e fp.

Definition signed_value_bytes (e : endian) (v : value) : list byte :=
  match v with
  | VI8 z => put_sint e 1 z | VI16 z => put_sint e 2 z | VI32 z => put_sint e 4 z
  | VI64 z => put_sint e 8 z | VI128 z => put_sint e 16 z
  | _ => []
  end.
Definition unsigned_value_bytes (e : endian) (v : value) : list byte :=
  match v with
  | VU8 n => put_uint e 1 n | VU16 n => put_uint e 2 n | VU32 n => put_uint e 4 n
  | VU64 n => put_uint e 8 n | VU128 n => put_uint e 16 n
  | _ => []
  end.
Definition float_value_bytes (e : endian) (v : value) : list byte :=
  match v with
  | VF32 b => put_uint e 4 b | VF64 b => put_uint e 8 b
  | _ => []
  end.

(* Argument::as_bytes *)
Definition arg_bytes (e : endian) (a : argument) : list byte :=
  let t := a_ti a in
  match ti_kind_of t with
  | KBool =>
    buf_ti_name e t (a_name a) ++ [n2b (match a_value a with VBool x => x | _ => 0 end)]
  | KSigned _ | KSignedFixed _ =>
    buf_ti_name_unit e t (a_name a) (a_unit a) (a_fp a) ++ signed_value_bytes e (a_value a)
  | KUnsigned _ | KUnsignedFixed _ =>
    buf_ti_name_unit e t (a_name a) (a_unit a) (a_fp a) ++ unsigned_value_bytes e (a_value a)
  | KFloat _ =>
    buf_ti_name_unit e t (a_name a) (a_unit a) (a_fp a) ++ float_value_bytes e (a_value a)
  | KString =>
    match ti_var_info t, a_name a, a_value a with
    | true, Some n, VString s =>
      ti_bytes e t ++ put_uint e 2 (u16_len_plus1 s) ++ put_uint e 2 (u16_len_plus1 n)
      ++ n ++ [x00] ++ s ++ [x00]
    | false, None, VString s =>
      ti_bytes e t ++ put_uint e 2 (u16_len_plus1 s) ++ s ++ [x00]
    | _, _, _ => []
    end
  | KRaw =>
    match ti_var_info t, a_name a, a_value a with
    | true, Some n, VRaw bs =>
      ti_bytes e t ++ put_uint e 2 (len bs mod 65536) ++ put_uint e 2 (u16_len_plus1 n)
      ++ n ++ [x00] ++ bs
    | false, None, VRaw bs =>
      ti_bytes e t ++ put_uint e 2 (len bs mod 65536) ++ bs
    | _, _, _ => []
    end
  end.

(* the `len as u16 + 1` sites of Argument::as_bytes that panic in a debug build *)
Definition opt_overflows (o : option (list byte)) : bool :=
  match o with Some s => len_plus1_overflows s | None => false end.
Definition arg_bytes_overflows (a : argument) : bool :=
  let t := a_ti a in
  match ti_kind_of t with
  | KBool => opt_overflows (a_name a)
  | KString =>
    match ti_var_info t, a_name a, a_value a with
    | true, Some n, VString s => len_plus1_overflows n || len_plus1_overflows s
    | false, None, VString s => len_plus1_overflows s
    | _, _, _ => false
    end
  | KRaw =>
    match ti_var_info t, a_name a, a_value a with
    | true, Some n, VRaw _ => len_plus1_overflows n
    | _, _, _ => false
    end
  | _ => if ti_var_info t then opt_overflows (a_name a) || opt_overflows (a_unit a) else false
  end.

(* PayloadContent::as_bytes *)
Definition payload_bytes (e : endian) (p : payload) : list byte :=
  match p with
  | PVerbose args => flat_map (arg_bytes e) args
  | PNonVerbose id bs => put_uint e 4 id ++ bs
  | PControl ct bs => n2b (control_value ct) :: bs
  | PNetworkTrace slices =>
    flat_map (fun s => put_uint e 4 1024 ++ put_uint e 2 (len s mod 65536) ++ s) slices
  end.
Definition payload_bytes_overflows (p : payload) : bool :=
  match p with PVerbose args => existsb arg_bytes_overflows args | _ => false end.

(* Message::as_bytes *)
Definition message_bytes (m : message) : list byte :=
  (match m_storage m with Some s => storage_header_bytes s | None => [] end)
  ++ std_header_bytes (m_header m)
  ++ (match m_ext m with Some x => ext_header_bytes x | None => [] end)
  ++ payload_bytes (h_endian (m_header m)) (m_payload m).
Definition message_bytes_overflows (m : message) : bool :=
  overall_length_overflows (m_header m) || payload_bytes_overflows (m_payload m).

(* Message::byte_len *)
Definition byte_len (m : message) : N := overall_length (m_header m).

(* ---------- Argument::len / valid (dlt.rs:989-1065) ---------- *)
Definition name_space (o : option (list byte)) : N :=
  match o with Some n => 2 + len n + 1 | None => 0 end.
Definition fp_value_width (o : fp_value) : N := match o with FI32 _ => 4 | FI64 _ => 8 end.
Definition fixed_point_capacity (a : argument) (w : float_width) : N :=
  N.of_nat (float_width_bytes w) +
  match a_fp a with Some fp => 4 + fp_value_width (fp_offset fp) | None => 0 end.

Definition arg_len (a : argument) : N :=
  let ns := name_space (a_name a) in
  let us := name_space (a_unit a) in
  (match ti_kind_of (a_ti a) with
   | KBool => ns + 1
   | KSigned l | KUnsigned l => ns + us + N.of_nat (type_length_bytes l)
   | KSignedFixed w | KUnsignedFixed w => ns + us + fixed_point_capacity a w
   | KFloat w => ns + us + N.of_nat (float_width_bytes w)
   | KString => 2 + ns + (match a_value a with VString s => len s + 1 | _ => 0 end)
   | KRaw => 2 + ns + (match a_value a with VRaw bs => len bs | _ => 0 end)
   end) + 4.

Definition arg_valid (a : argument) : bool :=
  match ti_kind_of (a_ti a) with
  | KBool => match a_value a with VBool _ => true | _ => false end
  | KFloat W32 => match a_value a with VF32 _ => true | _ => false end
  | KFloat W64 => match a_value a with VF64 _ => true | _ => false end
  | _ => true
  end.

(* ---------- Message::new / add_storage_header (dlt.rs:1447-1457,1578-1668) ---------- *)
Definition payload_is_verbose (p : payload) : bool :=
  match p with PVerbose _ | PNetworkTrace _ => true | _ => false end.
Definition payload_arg_count (p : payload) : N :=       (* min(len as u8, u8::MAX) *)
  match p with
  | PVerbose args => len args mod 256
  | PNetworkTrace slices => len slices mod 256
  | _ => 0
  end.

Definition message_new (c : message_config) (sh : option storage_header) : message :=
  mkMsg sh
    (mkStd (c_version c) (c_endian c)
       (match c_ext c with Some _ => true | None => false end)
       (c_counter c) (c_ecu c) (c_session c) (c_timestamp c)
       (len (payload_bytes (c_endian c) (c_payload c)) mod 65536))
    (match c_ext c with
     | Some x => Some (mkExt (payload_is_verbose (c_payload c)) (payload_arg_count (c_payload c))
                         (c_mtype x) (c_apid x) (c_ctid x))
     | None => None
     end)
    (c_payload c).

(* add_storage_header(Some ts); the None case reads the system clock and is not modelled *)
Definition add_storage_header (m : message) (ts : timestamp) : message :=
  mkMsg (Some (mkSH ts (match h_ecu (m_header m) with Some e => e | None => DEFAULT_ECU_ID end)))
        (m_header m) (m_ext m) (m_payload m).
