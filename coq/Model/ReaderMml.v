(* ReaderMml.v — the two message readers built with a caller-chosen scratch length:
     DltMessageReader::with_capacity(buffer_capacity, message_max_len, source, with_storage_header)   (read.rs:67-79)
     DltStreamReader::with_capacity(buffer_capacity, message_max_len, source, with_storage_header)    (stream.rs)
   Both do `buffer: vec![0u8; message_max_len]`; nothing else depends on message_max_len.
   Definitions only; lemmas are in Proofs/ReaderMml.v.

   The message logic is Reader.next_message_slice_with (generic in the scratch buffer): the two
   debug_assert!s / slice-index bounds on the scratch are its [range_ok] tests, failing = NPanic.
   (`debug_assert!(buffer_capacity >= message_max_len)` of with_capacity is NOT modelled: the theorems
   hold for every pair (cap, mml), in particular for those that satisfy it.) *)
From DltV.Model Require Import Bytes Nom Dlt Parse Reader Stream.
Open Scope N_scope.

(* vec![0u8; message_max_len] *)
Definition scratch_of (mml : N) : list byte := repeat x00 (N.to_nat mml).

Definition reader_mml (mml : N) (sigma : list N) (s : list byte) : reader bufreader :=
  mkReader (mkBR [] (mkSrc sigma s)) (scratch_of mml).

(* the caller's loop over the blocking reader; fuel as in Reader.reader_run_cap *)
Definition reader_run_mml (mml cap : N) (sigma : list N) (s : list byte) (f : option processed_filter)
  (with_sh : bool) : list outcome * bool :=
  run_with (br_read_exact cap) true (length s + 1) f with_sh (reader_mml mml sigma s).

(* the caller's loop over the async reader; [pi] is the poll schedule *)
Definition async_run_mml (mml cap : N) (pi : list N) (s : list byte) (f : option processed_filter)
  (with_sh : bool) : list outcome * bool :=
  run_with (abr_read_exact cap) true (length s + 1) f with_sh (reader_mml mml pi s).
