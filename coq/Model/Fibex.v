(* Fibex.v — model of the FIBEX loader /repo/src/fibex/mod.rs (with the pending repair of
   read_pdu/read_frame applied; the pre-repair loops are kept in the last section).

   Boundary: quick-xml is not modelled.  The model starts at the sequence of XML events the
   crate's `Reader` receives from `XmlReader::read_event_into`; after the list is exhausted every
   further read yields Eof.  Errors carry no text ([RErr]); `line_and_column()` only formats
   error messages and is not modelled.  Definitions only; lemmas live in Proofs/Fibex*.v. *)
From Coq.Strings Require Import Ascii String.
From DltV.Model Require Import Bytes RustInt Dlt.
Open Scope N_scope.

Definition bstr := list byte.

(* bytes of an ASCII literal *)
Fixpoint bs (s : string) : bstr :=
  match s with
  | EmptyString => []
  | String a r => byte_of_ascii a :: bs r
  end.

(* ------------------------------------------------------------------------------------------ *)
(* input: what quick-xml hands to the crate                                                    *)

Inductive xattr :=
| AttrErr                                           (* the attribute iterator yielded Err *)
| Attr (key : bstr) (value : option bstr).          (* value = None: unescape_value() failed *)

Inductive xevent :=
| XStart (local_name : bstr) (attrs : list xattr)   (* Event::Start *)
| XEmpty (local_name : bstr) (attrs : list xattr)   (* Event::Empty *)
| XEnd (local_name : bstr)                          (* Event::End *)
| XText (content : option bstr)                     (* Event::Text; None = unescape() failed *)
| XOther                                            (* Comment, CData, Decl, PI, DocType *)
| XErr.                                             (* read_event_into returned Err(_) *)

Inductive xfile :=
| FileMissing                                       (* XmlReader::from_file failed *)
| FileEvents (evs : list xevent).

(* ------------------------------------------------------------------------------------------ *)
(* results                                                                                     *)

Inductive res (A : Type) := ROk (a : A) | RErr | RPanic | RFuel.
Arguments ROk {A} a.
Arguments RErr {A}.
Arguments RPanic {A}.
Arguments RFuel {A}.

(* ------------------------------------------------------------------------------------------ *)
(* names (lines 478-502)                                                                       *)

Definition B_SHORT_NAME := bs "SHORT-NAME".
Definition B_ID_REF := bs "ID-REF".
Definition B_ID := bs "ID".
Definition B_XSI_TYPE := bs "xsi:type".
Definition B_PDU := bs "PDU".
Definition B_BYTE_LENGTH := bs "BYTE-LENGTH".
Definition B_PDU_TYPE := bs "PDU-TYPE".
Definition B_DESC := bs "DESC".
Definition B_SIGNAL_INSTANCE := bs "SIGNAL-INSTANCE".
Definition B_SEQUENCE_NUMBER := bs "SEQUENCE-NUMBER".
Definition B_SIGNAL_REF := bs "SIGNAL-REF".
Definition B_FRAME := bs "FRAME".
Definition B_FRAME_TYPE := bs "FRAME-TYPE".
Definition B_PDU_INSTANCE := bs "PDU-INSTANCE".
Definition B_PDU_REF := bs "PDU-REF".
Definition B_MANUFACTURER_EXTENSION := bs "MANUFACTURER-EXTENSION".
Definition B_MESSAGE_TYPE := bs "MESSAGE_TYPE".
Definition B_MESSAGE_INFO := bs "MESSAGE_INFO".
Definition B_APPLICATION_ID := bs "APPLICATION_ID".
Definition B_CONTEXT_ID := bs "CONTEXT_ID".
Definition B_CODING := bs "CODING".
Definition B_SIGNAL := bs "SIGNAL".
Definition B_CODING_REF := bs "CODING-REF".
Definition B_BASE_DATA_TYPE := bs "BASE-DATA-TYPE".
Definition B_CODED_TYPE := bs "CODED-TYPE".

(* the element names the three `match e.local_name().as_ref()` blocks distinguish; the Rust
   patterns are pairwise distinct constants, so the order of the tests is immaterial *)
Inductive tag :=
| T_PDU | T_SHORT_NAME | T_BYTE_LENGTH | T_SIGNAL_INSTANCE | T_SEQUENCE_NUMBER | T_SIGNAL_REF
| T_PDU_TYPE | T_FRAME_TYPE | T_FRAME | T_PDU_INSTANCE | T_PDU_REF | T_MANUFACTURER_EXTENSION
| T_APPLICATION_ID | T_CONTEXT_ID | T_MESSAGE_INFO | T_MESSAGE_TYPE | T_DESC | T_CODING | T_SIGNAL
| T_CODED_TYPE | T_CODING_REF | T_OTHER.

Definition classify (n : bstr) : tag :=
  if bytes_eqb n B_PDU then T_PDU
  else if bytes_eqb n B_SHORT_NAME then T_SHORT_NAME
  else if bytes_eqb n B_BYTE_LENGTH then T_BYTE_LENGTH
  else if bytes_eqb n B_SIGNAL_INSTANCE then T_SIGNAL_INSTANCE
  else if bytes_eqb n B_SEQUENCE_NUMBER then T_SEQUENCE_NUMBER
  else if bytes_eqb n B_SIGNAL_REF then T_SIGNAL_REF
  else if bytes_eqb n B_PDU_TYPE then T_PDU_TYPE
  else if bytes_eqb n B_FRAME_TYPE then T_FRAME_TYPE
  else if bytes_eqb n B_FRAME then T_FRAME
  else if bytes_eqb n B_PDU_INSTANCE then T_PDU_INSTANCE
  else if bytes_eqb n B_PDU_REF then T_PDU_REF
  else if bytes_eqb n B_MANUFACTURER_EXTENSION then T_MANUFACTURER_EXTENSION
  else if bytes_eqb n B_APPLICATION_ID then T_APPLICATION_ID
  else if bytes_eqb n B_CONTEXT_ID then T_CONTEXT_ID
  else if bytes_eqb n B_MESSAGE_INFO then T_MESSAGE_INFO
  else if bytes_eqb n B_MESSAGE_TYPE then T_MESSAGE_TYPE
  else if bytes_eqb n B_DESC then T_DESC
  else if bytes_eqb n B_CODING then T_CODING
  else if bytes_eqb n B_SIGNAL then T_SIGNAL
  else if bytes_eqb n B_CODED_TYPE then T_CODED_TYPE
  else if bytes_eqb n B_CODING_REF then T_CODING_REF
  else T_OTHER.

(* ------------------------------------------------------------------------------------------ *)
(* `str::parse::<usize>()` on a 64-bit target                                                  *)

Definition digit_val (b : byte) : option N :=
  let n := b2n b in if (48 <=? n) && (n <=? 57) then Some (n - 48) else None.

Fixpoint digits_val (acc : N) (ds : bstr) : option N :=
  match ds with
  | [] => Some acc
  | d :: r => match digit_val d with
              | Some v => digits_val (acc * 10 + v) r
              | None => None
              end
  end.

Definition usize_from_str (s : bstr) : option N :=
  match s with
  | [] => None                                                    (* IntErrorKind::Empty *)
  | c :: rest =>
    let digits := if b2n c =? 43 then rest else s in              (* one leading '+' *)
    match digits with
    | [] => None                                                  (* "+" alone: InvalidDigit *)
    | _ :: _ =>
      match digits_val 0 digits with
      | Some v => if v <? 2 ^ 64 then Some v else None            (* PosOverflow *)
      | None => None                                              (* InvalidDigit, incl. '-' *)
      end
    end
  end.

(* ------------------------------------------------------------------------------------------ *)
(* XmlReaderWithContext::attr_opt (lines 614-636)                                              *)

Inductive ares (A : Type) := AVal (a : A) | AErr | APanic.
Arguments AVal {A} a.
Arguments AErr {A}.
Arguments APanic {A}.

(* the `matches` expression; [Panic] = an index or slice range out of bounds, or usize underflow *)
Definition attr_matches (attr_key name : bstr) : chk bool :=
  if bytes_eqb attr_key name then Val true
  else
    let name_len := len name in
    let key_len := len attr_key in
    if name_len <? key_len then
      chk_bind (sub_chk key_len name_len) (fun d =>
      chk_bind (sub_chk d 1) (fun i =>
      match nth_error attr_key (N.to_nat i) with           (* attr_key[key_len - name_len - 1] *)
      | None => Panic
      | Some b =>
        if b2n b =? 58                                     (* b':' *)
        then if d <=? key_len                              (* &attr_key[key_len - name_len..] *)
             then Val (bytes_eqb (skipn (N.to_nat d) attr_key) name)
             else Panic
        else Val false
      end))
    else Val false.

Fixpoint attr_opt (attrs : list xattr) (name : bstr) : ares (option bstr) :=
  match attrs with
  | [] => AVal None
  | AttrErr :: _ => AErr                                    (* `let attr = attr?;` *)
  | Attr key value :: rest =>
    match attr_matches key name with
    | Panic => APanic
    | Val true => match value with                          (* `attr.unescape_value()?` *)
                  | Some v => AVal (Some v)
                  | None => AErr
                  end
    | Val false => attr_opt rest name
    end
  end.

(* attr / id_attr / id_ref_attr: a missing attribute is an error *)
Definition attr (attrs : list xattr) (name : bstr) : ares bstr :=
  match attr_opt attrs name with
  | AVal (Some v) => AVal v
  | AVal None => AErr
  | AErr => AErr
  | APanic => APanic
  end.
Definition id_attr (attrs : list xattr) : ares bstr := attr attrs B_ID.
Definition id_ref_attr (attrs : list xattr) : ares bstr := attr attrs B_ID_REF.

(* ------------------------------------------------------------------------------------------ *)
(* Reader (lines 651-668) and the high-level Event (lines 506-547)                             *)

Record reader := mkReader {
  r_events : list xevent;                 (* what the XML reader will still deliver *)
  r_short_name : option bstr;
  r_description : option bstr;
  r_byte_length : option N;
  r_type : option bstr;
  r_id : option bstr;
  r_sequence_number : option N;
  r_ref : option bstr;
  r_application_id : option bstr;
  r_context_id : option bstr;
  r_message_type : option bstr;
  r_message_info : option bstr;
  r_base_data_type : option bstr }.

Definition reader_from_events (evs : list xevent) : reader :=
  mkReader evs None None None None None None None None None None None None.

Definition set_events v r := mkReader v (r_short_name r) (r_description r) (r_byte_length r) (r_type r) (r_id r) (r_sequence_number r) (r_ref r) (r_application_id r) (r_context_id r) (r_message_type r) (r_message_info r) (r_base_data_type r).
Definition set_short_name v r := mkReader (r_events r) v (r_description r) (r_byte_length r) (r_type r) (r_id r) (r_sequence_number r) (r_ref r) (r_application_id r) (r_context_id r) (r_message_type r) (r_message_info r) (r_base_data_type r).
Definition set_description v r := mkReader (r_events r) (r_short_name r) v (r_byte_length r) (r_type r) (r_id r) (r_sequence_number r) (r_ref r) (r_application_id r) (r_context_id r) (r_message_type r) (r_message_info r) (r_base_data_type r).
Definition set_byte_length v r := mkReader (r_events r) (r_short_name r) (r_description r) v (r_type r) (r_id r) (r_sequence_number r) (r_ref r) (r_application_id r) (r_context_id r) (r_message_type r) (r_message_info r) (r_base_data_type r).
Definition set_type v r := mkReader (r_events r) (r_short_name r) (r_description r) (r_byte_length r) v (r_id r) (r_sequence_number r) (r_ref r) (r_application_id r) (r_context_id r) (r_message_type r) (r_message_info r) (r_base_data_type r).
Definition set_id v r := mkReader (r_events r) (r_short_name r) (r_description r) (r_byte_length r) (r_type r) v (r_sequence_number r) (r_ref r) (r_application_id r) (r_context_id r) (r_message_type r) (r_message_info r) (r_base_data_type r).
Definition set_sequence_number v r := mkReader (r_events r) (r_short_name r) (r_description r) (r_byte_length r) (r_type r) (r_id r) v (r_ref r) (r_application_id r) (r_context_id r) (r_message_type r) (r_message_info r) (r_base_data_type r).
Definition set_ref v r := mkReader (r_events r) (r_short_name r) (r_description r) (r_byte_length r) (r_type r) (r_id r) (r_sequence_number r) v (r_application_id r) (r_context_id r) (r_message_type r) (r_message_info r) (r_base_data_type r).
Definition set_application_id v r := mkReader (r_events r) (r_short_name r) (r_description r) (r_byte_length r) (r_type r) (r_id r) (r_sequence_number r) (r_ref r) v (r_context_id r) (r_message_type r) (r_message_info r) (r_base_data_type r).
Definition set_context_id v r := mkReader (r_events r) (r_short_name r) (r_description r) (r_byte_length r) (r_type r) (r_id r) (r_sequence_number r) (r_ref r) (r_application_id r) v (r_message_type r) (r_message_info r) (r_base_data_type r).
Definition set_message_type v r := mkReader (r_events r) (r_short_name r) (r_description r) (r_byte_length r) (r_type r) (r_id r) (r_sequence_number r) (r_ref r) (r_application_id r) (r_context_id r) v (r_message_info r) (r_base_data_type r).
Definition set_message_info v r := mkReader (r_events r) (r_short_name r) (r_description r) (r_byte_length r) (r_type r) (r_id r) (r_sequence_number r) (r_ref r) (r_application_id r) (r_context_id r) (r_message_type r) v (r_base_data_type r).
Definition set_base_data_type v r := mkReader (r_events r) (r_short_name r) (r_description r) (r_byte_length r) (r_type r) (r_id r) (r_sequence_number r) (r_ref r) (r_application_id r) (r_context_id r) (r_message_type r) (r_message_info r) v.

Inductive event :=
| EPduStart (id : bstr)
| EPduEnd (short_name description : option bstr) (byte_length : N)
| ESignalInstance (id : bstr) (sequence_number : N) (signal_ref : bstr)
| EFrameStart (id : bstr)
| EFrameEnd (short_name : bstr) (byte_length : N)
| EManufacturerExtension (message_type message_info application_id context_id : option bstr)
| EPduInstance (id pdu_ref : bstr) (sequence_number : N)
| ESignal (id coding_ref : bstr)
| ECoding (id base_data_type : bstr)
| EEof.

(* XmlReaderWithContext::read_text (lines 559-571): consumes the next XML event whatever it is.
   Returns the text (None = Err) and the events that remain. *)
Definition read_text (evs : list xevent) : option bstr * list xevent :=
  match evs with
  | XText (Some t) :: rest => (Some t, rest)
  | _ :: rest => (None, rest)          (* Text that fails to unescape, any other event, Err *)
  | [] => (None, [])                   (* Eof *)
  end.

(* read_usize (lines 587-592) *)
Definition read_usize (evs : list xevent) : option N * list xevent :=
  match read_text evs with
  | (Some t, rest) => (usize_from_str t, rest)
  | (None, rest) => (None, rest)
  end.

(* one iteration of the `loop` of Reader::read_event (lines 698-936) *)
Inductive step :=
| SCont (r : reader)                   (* fell through to `self.buf.clear()`; loop again *)
| SRet (e : event) (r : reader)        (* return Ok(e) *)
| SErr                                 (* return Err(_) *)
| SPanic.

(* arms of the shape  self.<field> = Some(self.xml_reader.read_text(..)?)  *)
Definition text_into (setter : option bstr -> reader -> reader) (rest : list xevent) (r : reader) : step :=
  match read_text rest with
  | (Some t, rest') => SCont (setter (Some t) (set_events rest' r))
  | (None, _) => SErr
  end.
Definition usize_into (setter : option N -> reader -> reader) (rest : list xevent) (r : reader) : step :=
  match read_usize rest with
  | (Some n, rest') => SCont (setter (Some n) (set_events rest' r))
  | (None, _) => SErr
  end.
(* arms of the shape  self.<field> = Some(self.xml_reader.<attr>(e, ..)?)  followed by [k] *)
Definition attr_into (a : ares bstr) (k : bstr -> step) : step :=
  match a with
  | AVal v => k v
  | AErr => SErr
  | APanic => SPanic
  end.
(* `.ok()` on an attribute lookup: errors become None, a panic stays a panic *)
Definition attr_ok (a : ares bstr) (k : option bstr -> step) : step :=
  match a with
  | AVal v => k (Some v)
  | AErr => k None
  | APanic => SPanic
  end.

Definition start_arm (name : bstr) (attrs : list xattr) (rest : list xevent) (r : reader) : step :=
  let r0 := set_events rest r in
  match classify name with
  | T_PDU =>
    let r1 := set_description None (set_type None (set_byte_length None (set_short_name None r0))) in
    attr_into (id_attr attrs) (fun id => SRet (EPduStart id) r1)
  | T_SHORT_NAME => text_into set_short_name rest r
  | T_BYTE_LENGTH => usize_into set_byte_length rest r
  | T_SIGNAL_INSTANCE =>
    attr_into (id_attr attrs) (fun id =>
      SCont (set_sequence_number None (set_ref None (set_id (Some id) r0))))
  | T_SEQUENCE_NUMBER => usize_into set_sequence_number rest r
  | T_SIGNAL_REF => attr_into (id_ref_attr attrs) (fun v => SCont (set_ref (Some v) r0))
  | T_PDU_TYPE => text_into set_type rest r
  | T_FRAME_TYPE => text_into set_type rest r
  | T_FRAME =>
    let r1 := set_type None (set_byte_length None (set_short_name None r0)) in
    attr_into (id_attr attrs) (fun id => SRet (EFrameStart id) r1)
  | T_PDU_INSTANCE =>
    attr_into (id_attr attrs) (fun id =>
      SCont (set_sequence_number None (set_ref None (set_id (Some id) r0))))
  | T_PDU_REF => attr_into (id_ref_attr attrs) (fun v => SCont (set_ref (Some v) r0))
  | T_MANUFACTURER_EXTENSION =>
    SCont (set_message_type None (set_message_info None (set_context_id None (set_application_id None r0))))
  | T_APPLICATION_ID => text_into set_application_id rest r
  | T_CONTEXT_ID => text_into set_context_id rest r
  | T_MESSAGE_INFO => text_into set_message_info rest r
  | T_MESSAGE_TYPE => text_into set_message_type rest r
  | T_DESC =>                                  (* read_text(..).ok(): the event is consumed anyway *)
    let '(t, rest') := read_text rest in SCont (set_description t (set_events rest' r))
  | T_CODING =>
    attr_into (id_attr attrs) (fun id => SCont (set_base_data_type None (set_id (Some id) r0)))
  | T_SIGNAL =>
    attr_into (id_attr attrs) (fun id => SCont (set_ref None (set_id (Some id) r0)))
  | T_CODED_TYPE =>
    attr_ok (attr attrs B_BASE_DATA_TYPE) (fun v => SCont (set_base_data_type v r0))
  | T_CODING_REF | T_OTHER => SCont r0
  end.

Definition empty_arm (name : bstr) (attrs : list xattr) (rest : list xevent) (r : reader) : step :=
  let r0 := set_events rest r in
  match classify name with
  | T_SIGNAL_REF | T_PDU_REF | T_CODING_REF =>
    attr_into (id_ref_attr attrs) (fun v => SCont (set_ref (Some v) r0))
  | T_CODED_TYPE =>
    attr_ok (attr attrs B_BASE_DATA_TYPE) (fun v => SCont (set_base_data_type v r0))
  | _ => SCont r0
  end.

(* `mem::take(&mut self.x).ok_or_else(..)?` *)
Definition need {A} (o : option A) (k : A -> step) : step :=
  match o with Some a => k a | None => SErr end.

Definition end_arm (name : bstr) (rest : list xevent) (r : reader) : step :=
  let r0 := set_events rest r in
  match classify name with
  | T_PDU =>
    need (r_byte_length r) (fun bl =>
      SRet (EPduEnd (r_short_name r) (r_description r) bl)
           (set_byte_length None (set_description None (set_short_name None r0))))
  | T_SIGNAL_INSTANCE =>
    need (r_id r) (fun id => need (r_sequence_number r) (fun sn => need (r_ref r) (fun rf =>
      SRet (ESignalInstance id sn rf) (set_ref None (set_sequence_number None (set_id None r0))))))
  | T_FRAME =>
    need (r_short_name r) (fun sn => need (r_byte_length r) (fun bl =>
      SRet (EFrameEnd sn bl) (set_byte_length None (set_short_name None r0))))
  | T_PDU_INSTANCE =>
    need (r_id r) (fun id => need (r_sequence_number r) (fun sn => need (r_ref r) (fun rf =>
      SRet (EPduInstance id rf sn) (set_ref None (set_sequence_number None (set_id None r0))))))
  | T_MANUFACTURER_EXTENSION =>
    SRet (EManufacturerExtension (r_message_type r) (r_message_info r) (r_application_id r) (r_context_id r))
         (set_message_info None (set_message_type None (set_context_id None (set_application_id None r0))))
  | T_SIGNAL =>
    need (r_id r) (fun id => need (r_ref r) (fun rf =>
      SRet (ESignal id rf) (set_ref None (set_id None r0))))
  | T_CODING =>
    need (r_id r) (fun id => need (r_base_data_type r) (fun bt =>
      SRet (ECoding id bt) (set_base_data_type None (set_id None r0))))
  | _ => SCont r0
  end.

Definition read_event_step (r : reader) : step :=
  match r_events r with
  | [] => SRet EEof r                                      (* XmlEvent::Eof, and again next time *)
  | XStart name attrs :: rest => start_arm name attrs rest r
  | XEmpty name attrs :: rest => empty_arm name attrs rest r
  | XEnd name :: rest => end_arm name rest r
  | XText _ :: rest => SCont (set_events rest r)
  | XOther :: rest => SCont (set_events rest r)
  | XErr :: _ => SErr                                      (* `read_event(..)?` *)
  end.

Fixpoint read_event (fuel : nat) (r : reader) : res (event * reader) :=
  match fuel with
  | O => RFuel
  | S f =>
    match read_event_step r with
    | SCont r' => read_event f r'
    | SRet e r' => ROk (e, r')
    | SErr => RErr
    | SPanic => RPanic
    end
  end.

(* ------------------------------------------------------------------------------------------ *)
(* `sort_by_key(|s| s.0)`: a stable sort by sequence number                                    *)

Fixpoint insert_by_key {A} (x : N * A) (l : list (N * A)) : list (N * A) :=
  match l with
  | [] => [x]
  | y :: t => if fst x <=? fst y then x :: y :: t else y :: insert_by_key x t
  end.
Fixpoint sort_by_key {A} (l : list (N * A)) : list (N * A) :=
  match l with
  | [] => []
  | x :: t => insert_by_key x (sort_by_key t)
  end.

(* ------------------------------------------------------------------------------------------ *)
(* read_pdu (lines 406-424) and read_frame (lines 435-476), REPAIRED: Eof is an error.
   [ef] is the fuel handed to every read_event call, [fuel] counts iterations of this loop.   *)

Definition pdu_read_data := (option bstr * list bstr)%type.       (* description, signal refs *)

Fixpoint read_pdu_loop (ef fuel : nat) (r : reader) (signal_refs : list (N * bstr))
  : res (pdu_read_data * reader) :=
  match fuel with
  | O => RFuel
  | S f =>
    match read_event ef r with
    | ROk (ESignalInstance _ sequence_number signal_ref, r') =>
      read_pdu_loop ef f r' (signal_refs ++ [(sequence_number, signal_ref)])
    | ROk (EPduEnd _ description _, r') =>
      ROk ((description, map snd (sort_by_key signal_refs)), r')
    | ROk (EEof, _) => RErr                                   (* the repair *)
    | ROk (_, r') => read_pdu_loop ef f r' signal_refs
    | RErr => RErr
    | RPanic => RPanic
    | RFuel => RFuel
    end
  end.
Definition read_pdu (ef : nat) (r : reader) : res (pdu_read_data * reader) :=
  read_pdu_loop ef ef r [].

Record frame_read_data := mkFRD {
  frd_short_name : bstr;
  frd_context_id : option bstr;
  frd_application_id : option bstr;
  frd_message_type : option bstr;
  frd_message_info : option bstr;
  frd_pdu_refs : list bstr }.

(* the four `frame_*` locals of read_frame, in the order context, application, type, info *)
Definition frame_ext := (option bstr * option bstr * option bstr * option bstr)%type.

Fixpoint read_frame_loop (ef fuel : nat) (r : reader) (pdus : list (N * bstr)) (ext : frame_ext)
  : res (frame_read_data * reader) :=
  match fuel with
  | O => RFuel
  | S f =>
    match read_event ef r with
    | ROk (EPduInstance _ pdu_ref sequence_number, r') =>
      read_frame_loop ef f r' (pdus ++ [(sequence_number, pdu_ref)]) ext
    | ROk (EManufacturerExtension message_type message_info application_id context_id, r') =>
      read_frame_loop ef f r' pdus (context_id, application_id, message_type, message_info)
    | ROk (EFrameEnd short_name _, r') =>
      let '(c, a, t, i) := ext in
      ROk (mkFRD short_name c a t i (map snd (sort_by_key pdus)), r')
    | ROk (EEof, _) => RErr                                   (* the repair *)
    | ROk (_, r') => read_frame_loop ef f r' pdus ext
    | RErr => RErr
    | RPanic => RPanic
    | RFuel => RFuel
    end
  end.
Definition read_frame (ef : nat) (r : reader) : res (frame_read_data * reader) :=
  read_frame_loop ef ef r [] (None, None, None, None).

(* ------------------------------------------------------------------------------------------ *)
(* type_info_for_signal_ref (lines 100-270)                                                    *)

(* HashMap<String, _> as an association list: `insert` conses, `get` takes the first match,
   so the last insert wins *)
Fixpoint assoc_get {V} (k : bstr) (m : list (bstr * V)) : option V :=
  match m with
  | [] => None
  | (k', v) :: t => if bytes_eqb k k' then Some v else assoc_get k t
  end.

Definition plain_ti (k : ti_kind) (c : string_coding) : type_info := mkTI k c false false.
Definition ti_sint8 := plain_ti (KSigned BL8) SAscii.
Definition ti_uint8 := plain_ti (KUnsigned BL8) SAscii.
Definition ti_sint16 := plain_ti (KSigned BL16) SAscii.
Definition ti_uint16 := plain_ti (KUnsigned BL16) SAscii.
Definition ti_sint32 := plain_ti (KSigned BL32) SAscii.
Definition ti_uint32 := plain_ti (KUnsigned BL32) SAscii.
Definition ti_sint64 := plain_ti (KSigned BL64) SAscii.
Definition ti_uint64 := plain_ti (KUnsigned BL64) SAscii.
Definition ti_float32 := plain_ti (KFloat W32) SAscii.
Definition ti_float64 := plain_ti (KFloat W64) SAscii.
Definition ti_ascii_str := plain_ti KString SAscii.
Definition ti_utf8_str := plain_ti KString SUtf8.
Definition ti_bool := plain_ti KBool SAscii.
Definition ti_raw := plain_ti KRaw SAscii.

Definition is_name (s : bstr) (lit : string) : bool := bytes_eqb s (bs lit).

Definition type_info_for_base_type (base_type : bstr) : option type_info :=
  if is_name base_type "A_UINT8" then Some ti_uint8
  else if is_name base_type "A_INT8" || is_name base_type "A_SINT8" then Some ti_sint8
  else if is_name base_type "A_UINT16" then Some ti_uint16
  else if is_name base_type "A_INT16" || is_name base_type "A_SINT16" then Some ti_sint16
  else if is_name base_type "A_UINT32" then Some ti_uint32
  else if is_name base_type "A_INT32" || is_name base_type "A_SINT32" then Some ti_sint32
  else if is_name base_type "A_UINT64" then Some ti_uint64
  else if is_name base_type "A_INT64" || is_name base_type "A_SINT64" then Some ti_sint64
  else if is_name base_type "A_FLOAT32" then Some ti_float32
  else if is_name base_type "A_FLOAT64" then Some ti_float64
  else if is_name base_type "A_ASCIISTRING" then Some ti_ascii_str
  else if is_name base_type "A_UNICODE2STRING" then Some ti_utf8_str
  else None.

Definition type_info_for_signal_ref (signal_ref : bstr) (signals codings : list (bstr * bstr))
  : option type_info :=
  if is_name signal_ref "S_BOOL" then Some ti_bool
  else if is_name signal_ref "S_SINT8" then Some ti_sint8
  else if is_name signal_ref "S_UINT8" then Some ti_uint8
  else if is_name signal_ref "S_SINT16" then Some ti_sint16
  else if is_name signal_ref "S_UINT16" then Some ti_uint16
  else if is_name signal_ref "S_SINT32" then Some ti_sint32
  else if is_name signal_ref "S_UINT32" then Some ti_uint32
  else if is_name signal_ref "S_SINT64" then Some ti_sint64
  else if is_name signal_ref "S_UINT64" then Some ti_uint64
  else if is_name signal_ref "S_FLOA16" then None
  else if is_name signal_ref "S_FLOA32" then Some ti_float32
  else if is_name signal_ref "S_FLOA64" then Some ti_float64
  else if is_name signal_ref "S_STRG_ASCII" then Some ti_ascii_str
  else if is_name signal_ref "S_STRG_UTF8" then Some ti_utf8_str
  else if is_name signal_ref "S_RAWD" || is_name signal_ref "S_RAW" then Some ti_raw
  else
    match assoc_get signal_ref signals with
    | Some coding_ref =>
      match assoc_get coding_ref codings with
      | Some base_type => type_info_for_base_type base_type
      | None => None
      end
    | None => None
    end.

(* ------------------------------------------------------------------------------------------ *)
(* read_fibexes (lines 292-404)                                                                *)

Record pdu_metadata := mkPdu { pdu_description : option bstr; pdu_signal_types : list type_info }.
Record frame_metadata := mkFrame {
  fm_short_name : bstr;
  fm_pdus : list pdu_metadata;
  fm_application_id : option bstr;
  fm_context_id : option bstr;
  fm_message_type : option bstr;
  fm_message_info : option bstr }.

Definition frame_key := (bstr * bstr * bstr)%type.            (* context_id, app_id, frame_id *)
Definition frame_key_eqb (a b : frame_key) : bool :=
  let '(c1, a1, f1) := a in let '(c2, a2, f2) := b in
  bytes_eqb c1 c2 && bytes_eqb a1 a2 && bytes_eqb f1 f2.
Fixpoint key_get {V} (k : frame_key) (m : list (frame_key * V)) : option V :=
  match m with
  | [] => None
  | (k', v) :: t => if frame_key_eqb k k' then Some v else key_get k t
  end.

(* the two HashMaps as association lists with pairwise distinct keys *)
Record fibex_metadata := mkMeta {
  frame_map_with_key : list (frame_key * frame_metadata);
  frame_map : list (bstr * frame_metadata) }.

(* what the first loop collects; frames and pdus in push order, the two maps newest first *)
Record gathered := mkGathered {
  g_frames : list (bstr * frame_read_data);
  g_pdus : list (bstr * pdu_read_data);
  g_signals : list (bstr * bstr);
  g_codings : list (bstr * bstr) }.
Definition gathered_empty : gathered := mkGathered [] [] [] [].

(* the inner `loop` over one file *)
Fixpoint read_file_loop (ef fuel : nat) (r : reader) (g : gathered) : res gathered :=
  match fuel with
  | O => RFuel
  | S f =>
    match read_event ef r with
    | ROk (EPduStart id, r') =>
      match read_pdu ef r' with
      | ROk (p, r'') =>
        read_file_loop ef f r'' (mkGathered (g_frames g) (g_pdus g ++ [(id, p)]) (g_signals g) (g_codings g))
      | RErr => RErr | RPanic => RPanic | RFuel => RFuel
      end
    | ROk (EFrameStart id, r') =>
      match read_frame ef r' with
      | ROk (fr, r'') =>
        read_file_loop ef f r'' (mkGathered (g_frames g ++ [(id, fr)]) (g_pdus g) (g_signals g) (g_codings g))
      | RErr => RErr | RPanic => RPanic | RFuel => RFuel
      end
    | ROk (EEof, _) => ROk g
    | ROk (ESignal id coding_ref, r') =>
      read_file_loop ef f r' (mkGathered (g_frames g) (g_pdus g) ((id, coding_ref) :: g_signals g) (g_codings g))
    | ROk (ECoding id base_data_type, r') =>
      read_file_loop ef f r' (mkGathered (g_frames g) (g_pdus g) (g_signals g) ((id, base_data_type) :: g_codings g))
    | ROk (_, r') => read_file_loop ef f r' g
    | RErr => RErr
    | RPanic => RPanic
    | RFuel => RFuel
    end
  end.

(* `for f in files` *)
Fixpoint read_files (ef : nat) (files : list xfile) (g : gathered) : res gathered :=
  match files with
  | [] => ROk g
  | FileMissing :: _ => RErr                                  (* `Reader::from_file(f)?` *)
  | FileEvents evs :: rest =>
    match read_file_loop ef ef (reader_from_events evs) g with
    | ROk g' => read_files ef rest g'
    | RErr => RErr | RPanic => RPanic | RFuel => RFuel
    end
  end.

Fixpoint filter_map {A B} (f : A -> option B) (l : list A) : list B :=
  match l with
  | [] => []
  | a :: t => match f a with Some b => b :: filter_map f t | None => filter_map f t end
  end.

(* second loop: `pdu_by_id.entry(id)` — the first definition of a PDU id wins *)
Definition pdu_metadata_of (g : gathered) (p : pdu_read_data) : pdu_metadata :=
  mkPdu (fst p)
        (filter_map (fun type_ref => type_info_for_signal_ref type_ref (g_signals g) (g_codings g)) (snd p)).

Definition insert_vacant {V} (k : bstr) (v : V) (m : list (bstr * V)) : list (bstr * V) :=
  match assoc_get k m with Some _ => m | None => m ++ [(k, v)] end.
Definition key_insert_vacant {V} (k : frame_key) (v : V) (m : list (frame_key * V)) : list (frame_key * V) :=
  match key_get k m with Some _ => m | None => m ++ [(k, v)] end.

Definition build_pdu_by_id (g : gathered) : list (bstr * pdu_metadata) :=
  fold_left (fun m '(id, p) => insert_vacant id (pdu_metadata_of g p) m) (g_pdus g) [].

(* `.map(|r| pdu_by_id.get(&r).cloned().ok_or_else(..)).collect::<Result<Vec<_>, _>>()?` *)
Fixpoint resolve_pdu_refs (pdu_by_id : list (bstr * pdu_metadata)) (refs : list bstr)
  : option (list pdu_metadata) :=
  match refs with
  | [] => Some []
  | r :: t =>
    match assoc_get r pdu_by_id with
    | None => None
    | Some p => match resolve_pdu_refs pdu_by_id t with
                | Some ps => Some (p :: ps)
                | None => None
                end
    end
  end.

(* third loop: resolve first (a dangling reference fails even in a frame that would be dropped
   as a duplicate), then first definition wins in either map *)
Fixpoint build_frames (pdu_by_id : list (bstr * pdu_metadata)) (frames : list (bstr * frame_read_data))
  (m : fibex_metadata) : option fibex_metadata :=
  match frames with
  | [] => Some m
  | (id, fr) :: t =>
    match resolve_pdu_refs pdu_by_id (frd_pdu_refs fr) with
    | None => None
    | Some ps =>
      let frame := mkFrame (frd_short_name fr) ps (frd_application_id fr) (frd_context_id fr)
                           (frd_message_type fr) (frd_message_info fr) in
      let with_key :=
        match frd_context_id fr, frd_application_id fr with
        | Some context_id, Some application_id =>
          key_insert_vacant (context_id, application_id, id) frame (frame_map_with_key m)
        | _, _ => frame_map_with_key m
        end in
      build_frames pdu_by_id t (mkMeta with_key (insert_vacant id frame (frame_map m)))
    end
  end.

Definition assemble (g : gathered) : option fibex_metadata :=
  build_frames (build_pdu_by_id g) (g_frames g) (mkMeta [] []).

Definition read_fibexes (ef : nat) (files : list xfile) : res fibex_metadata :=
  match read_files ef files gathered_empty with
  | ROk g => match assemble g with Some m => ROk m | None => RErr end
  | RErr => RErr
  | RPanic => RPanic
  | RFuel => RFuel
  end.

(* ------------------------------------------------------------------------------------------ *)
(* gather_fibex_data (lines 273-290)                                                           *)

Inductive load_result := Loaded (m : fibex_metadata) | Refused | LoadPanic | OutOfFuel.

Definition load_fuel (fuel : nat) (files : list xfile) : load_result :=
  match files with
  | [] => Refused                                              (* fibex_file_paths.is_empty() *)
  | _ :: _ =>
    match read_fibexes fuel files with
    | ROk m => Loaded m
    | RErr => Refused
    | RPanic => LoadPanic
    | RFuel => OutOfFuel
    end
  end.

Definition file_events (f : xfile) : nat :=
  match f with FileMissing => O | FileEvents evs => length evs end.
Fixpoint total_events (files : list xfile) : nat :=
  match files with
  | [] => O
  | f :: t => (file_events f + total_events t)%nat
  end.
(* linear in the input; every loop iteration consumes an event or ends the loop *)
Definition fuel_bound (files : list xfile) : nat := S (S (total_events files)).

Definition load (files : list xfile) : load_result := load_fuel (fuel_bound files) files.

Definition gather_fibex_data (files : list xfile) : option fibex_metadata :=
  match load files with
  | Loaded m => Some m
  | _ => None
  end.

(* ------------------------------------------------------------------------------------------ *)
(* extract_metadata (lines 964-981)                                                            *)

(* `format!("{}", id)`: decimal digits, most significant first, "0" for zero *)
Fixpoint decimal_aux (fuel : nat) (n : N) (acc : bstr) : bstr :=
  match fuel with
  | O => acc
  | S f =>
    let acc' := n2b (48 + n mod 10) :: acc in
    if n <? 10 then acc' else decimal_aux f (n / 10) acc'
  end.
Definition decimal (n : N) : bstr := decimal_aux (S (N.to_nat (N.log2 n))) n [].

Definition id_text (id : N) : bstr := bs "ID_" ++ decimal id.

Definition extract_metadata (m : fibex_metadata) (id : N) (extended_header : option ext_header)
  : option frame_metadata :=
  match extended_header with
  | Some eh => key_get (e_ctid eh, e_apid eh, id_text id) (frame_map_with_key m)
  | None => assoc_get (id_text id) (frame_map m)
  end.

(* ========================================================================================== *)
(* PRE-REPAIR variants: the pinned read_pdu / read_frame treat Eof like any other event        *)
(* ========================================================================================== *)

Fixpoint read_pdu_loop_pinned (ef fuel : nat) (r : reader) (signal_refs : list (N * bstr))
  : res (pdu_read_data * reader) :=
  match fuel with
  | O => RFuel
  | S f =>
    match read_event ef r with
    | ROk (ESignalInstance _ sequence_number signal_ref, r') =>
      read_pdu_loop_pinned ef f r' (signal_refs ++ [(sequence_number, signal_ref)])
    | ROk (EPduEnd _ description _, r') =>
      ROk ((description, map snd (sort_by_key signal_refs)), r')
    | ROk (_, r') => read_pdu_loop_pinned ef f r' signal_refs         (* `_ => {}` incl. Eof *)
    | RErr => RErr
    | RPanic => RPanic
    | RFuel => RFuel
    end
  end.
Definition read_pdu_pinned (ef : nat) (r : reader) : res (pdu_read_data * reader) :=
  read_pdu_loop_pinned ef ef r [].

Fixpoint read_frame_loop_pinned (ef fuel : nat) (r : reader) (pdus : list (N * bstr)) (ext : frame_ext)
  : res (frame_read_data * reader) :=
  match fuel with
  | O => RFuel
  | S f =>
    match read_event ef r with
    | ROk (EPduInstance _ pdu_ref sequence_number, r') =>
      read_frame_loop_pinned ef f r' (pdus ++ [(sequence_number, pdu_ref)]) ext
    | ROk (EManufacturerExtension message_type message_info application_id context_id, r') =>
      read_frame_loop_pinned ef f r' pdus (context_id, application_id, message_type, message_info)
    | ROk (EFrameEnd short_name _, r') =>
      let '(c, a, t, i) := ext in
      ROk (mkFRD short_name c a t i (map snd (sort_by_key pdus)), r')
    | ROk (_, r') => read_frame_loop_pinned ef f r' pdus ext          (* `_ => {}` incl. Eof *)
    | RErr => RErr
    | RPanic => RPanic
    | RFuel => RFuel
    end
  end.
Definition read_frame_pinned (ef : nat) (r : reader) : res (frame_read_data * reader) :=
  read_frame_loop_pinned ef ef r [] (None, None, None, None).

Fixpoint read_file_loop_pinned (ef fuel : nat) (r : reader) (g : gathered) : res gathered :=
  match fuel with
  | O => RFuel
  | S f =>
    match read_event ef r with
    | ROk (EPduStart id, r') =>
      match read_pdu_pinned ef r' with
      | ROk (p, r'') =>
        read_file_loop_pinned ef f r'' (mkGathered (g_frames g) (g_pdus g ++ [(id, p)]) (g_signals g) (g_codings g))
      | RErr => RErr | RPanic => RPanic | RFuel => RFuel
      end
    | ROk (EFrameStart id, r') =>
      match read_frame_pinned ef r' with
      | ROk (fr, r'') =>
        read_file_loop_pinned ef f r'' (mkGathered (g_frames g ++ [(id, fr)]) (g_pdus g) (g_signals g) (g_codings g))
      | RErr => RErr | RPanic => RPanic | RFuel => RFuel
      end
    | ROk (EEof, _) => ROk g
    | ROk (ESignal id coding_ref, r') =>
      read_file_loop_pinned ef f r' (mkGathered (g_frames g) (g_pdus g) ((id, coding_ref) :: g_signals g) (g_codings g))
    | ROk (ECoding id base_data_type, r') =>
      read_file_loop_pinned ef f r' (mkGathered (g_frames g) (g_pdus g) (g_signals g) ((id, base_data_type) :: g_codings g))
    | ROk (_, r') => read_file_loop_pinned ef f r' g
    | RErr => RErr
    | RPanic => RPanic
    | RFuel => RFuel
    end
  end.

Fixpoint read_files_pinned (ef : nat) (files : list xfile) (g : gathered) : res gathered :=
  match files with
  | [] => ROk g
  | FileMissing :: _ => RErr
  | FileEvents evs :: rest =>
    match read_file_loop_pinned ef ef (reader_from_events evs) g with
    | ROk g' => read_files_pinned ef rest g'
    | RErr => RErr | RPanic => RPanic | RFuel => RFuel
    end
  end.

Definition load_pinned (fuel : nat) (files : list xfile) : load_result :=
  match files with
  | [] => Refused
  | _ :: _ =>
    match read_files_pinned fuel files gathered_empty with
    | ROk g => match assemble g with Some m => Loaded m | None => Refused end
    | RErr => Refused
    | RPanic => LoadPanic
    | RFuel => OutOfFuel
    end
  end.
