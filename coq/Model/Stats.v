(* Stats.v — model of src/statistics.rs: the per-message [Statistic] handed to a collector
   (collect_statistics, lines 70-96) and the standard collector of `mod common`
   (lines 104-312): LevelDistribution, add_for_level, StatisticInfoCollector,
   StatisticInfo::new/merge/merge_levels.  Definitions only.

   Modelling decisions
   * `usize` counters are unbounded [N] (2^64 messages do not exist).
   * `FxHashMap<String, LevelDistribution>` is an association list with unique keys; a new key
     is appended at the END, an existing key is updated in place.  The iteration order of the
     real hash map (visible through `collect`) is unspecified; it is abstracted by
     [StatsSpec.stat_equiv], which compares maps by lookup only.
   * `String` ids are their UTF-8 bytes; `==` on strings is [bytes_eqb]. *)
From DltV.Model Require Import Bytes Dlt.
Open Scope N_scope.

(* ---------- LevelDistribution (statistics.rs:217-277) ---------- *)
Record level_dist := mkLD {
  non_log : N; log_fatal : N; log_error : N; log_warning : N;
  log_info : N; log_debug : N; log_verbose : N; log_invalid : N }.

(* #[derive(Default)] *)
Definition level_dist_default : level_dist := mkLD 0 0 0 0 0 0 0 0.

(* LevelDistribution::new (229-265) *)
Definition level_dist_new (level : option log_level) : level_dist :=
  match level with
  | None => mkLD 1 0 0 0 0 0 0 0
  | Some Fatal => mkLD 0 1 0 0 0 0 0 0
  | Some LError => mkLD 0 0 1 0 0 0 0 0
  | Some Warn => mkLD 0 0 0 1 0 0 0 0
  | Some Info => mkLD 0 0 0 0 1 0 0 0
  | Some Debug => mkLD 0 0 0 0 0 1 0 0
  | Some Verbose => mkLD 0 0 0 0 0 0 1 0
  | Some (LInvalid _) => mkLD 0 0 0 0 0 0 0 1
  end.

(* LevelDistribution::merge (267-276) *)
Definition level_dist_merge (d outside : level_dist) : level_dist :=
  mkLD (non_log d + non_log outside) (log_fatal d + log_fatal outside)
       (log_error d + log_error outside) (log_warning d + log_warning outside)
       (log_info d + log_info outside) (log_debug d + log_debug outside)
       (log_verbose d + log_verbose outside) (log_invalid d + log_invalid outside).

(* the `match level { ... n.X += 1 }` of add_for_level (281-306) *)
Definition level_dist_incr (level : option log_level) (n : level_dist) : level_dist :=
  match level with
  | Some Fatal => mkLD (non_log n) (log_fatal n + 1) (log_error n) (log_warning n)
                       (log_info n) (log_debug n) (log_verbose n) (log_invalid n)
  | Some LError => mkLD (non_log n) (log_fatal n) (log_error n + 1) (log_warning n)
                        (log_info n) (log_debug n) (log_verbose n) (log_invalid n)
  | Some Warn => mkLD (non_log n) (log_fatal n) (log_error n) (log_warning n + 1)
                      (log_info n) (log_debug n) (log_verbose n) (log_invalid n)
  | Some Info => mkLD (non_log n) (log_fatal n) (log_error n) (log_warning n)
                      (log_info n + 1) (log_debug n) (log_verbose n) (log_invalid n)
  | Some Debug => mkLD (non_log n) (log_fatal n) (log_error n) (log_warning n)
                       (log_info n) (log_debug n + 1) (log_verbose n) (log_invalid n)
  | Some Verbose => mkLD (non_log n) (log_fatal n) (log_error n) (log_warning n)
                         (log_info n) (log_debug n) (log_verbose n + 1) (log_invalid n)
  | Some (LInvalid _) => mkLD (non_log n) (log_fatal n) (log_error n) (log_warning n)
                              (log_info n) (log_debug n) (log_verbose n) (log_invalid n + 1)
  | None => mkLD (non_log n + 1) (log_fatal n) (log_error n) (log_warning n)
                 (log_info n) (log_debug n) (log_verbose n) (log_invalid n)
  end.

(* ---------- IdMap and add_for_level (106, 279-310) ---------- *)
Definition idmap := list (list byte * level_dist).

(* `if let Some(n) = ids.get_mut(&id) { increment } else { ids.insert(id, new(level)) }` *)
Fixpoint add_for_level (level : option log_level) (ids : idmap) (id : list byte) : idmap :=
  match ids with
  | [] => [(id, level_dist_new level)]
  | (k, n) :: rest =>
    if bytes_eqb k id then (k, level_dist_incr level n) :: rest
    else (k, n) :: add_for_level level rest id
  end.

(* ---------- Statistic (29-42) as built by collect_statistics (70-96) ---------- *)
(* only the fields the standard collector reads *)
Record statistic := mkStat {
  st_level : option log_level;                 (* log_level *)
  st_ecu : option (list byte);                 (* standard_header.ecu_id *)
  st_ext : option (list byte * list byte);     (* extended_header: application id, context id *)
  st_verbose : bool }.                         (* is_verbose *)

Definition statistic_of_message (m : message) : statistic :=
  match m_ext m with
  | Some x =>
    mkStat (match e_mtype x with MLog level => Some level | _ => None end)
           (h_ecu (m_header m))
           (Some (e_apid x, e_ctid x))
           (e_verbose x)
  | None => mkStat None (h_ecu (m_header m)) None false
  end.

(* ---------- StatisticInfoCollector (109-156) ---------- *)
Record collector := mkColl {
  sc_app : idmap; sc_ctx : idmap; sc_ecu : idmap; sc_non_verbose : bool }.

(* #[derive(Default)] *)
Definition collector_empty : collector := mkColl [] [] [] false.

Definition NONE_ID : list byte := [x4e; x4f; x4e; x45].   (* "NONE" *)

(* collect_statistic (139-155); it never returns Err *)
Definition collect_statistic (c : collector) (s : statistic) : collector :=
  let level := st_level s in
  let ecu := match st_ecu s with
             | Some id => add_for_level level (sc_ecu c) id
             | None => add_for_level level (sc_ecu c) NONE_ID
             end in
  let '(app, ctx) :=
    match st_ext s with
    | Some (apid, ctid) => (add_for_level level (sc_app c) apid, add_for_level level (sc_ctx c) ctid)
    | None => (sc_app c, sc_ctx c)
    end in
  mkColl app ctx ecu (sc_non_verbose c || negb (st_verbose s)).

(* ---------- StatisticInfo (165-203) ---------- *)
Record stat_info := mkSI {
  si_app : idmap; si_ctx : idmap; si_ecu : idmap; si_non_verbose : bool }.

(* StatisticInfoCollector::collect (119-135); into_iter order := list order *)
Definition collect (c : collector) : stat_info :=
  mkSI (sc_app c) (sc_ctx c) (sc_ecu c) (sc_non_verbose c).

(* StatisticInfo::new (173-180) *)
Definition stat_info_new : stat_info := mkSI [] [] [] false.

(* the collector run over the statistics of a stream, one call per message, in order *)
Definition collect_all (l : list statistic) : stat_info :=
  collect (fold_left collect_statistic l collector_empty).

(* collect_statistics over an already delimited stream: each message once, in order *)
Definition collect_messages (ms : list message) : stat_info :=
  collect_all (map statistic_of_message ms).

(* one step of the for_each closure of merge_levels (193-201):
   `owner.iter_mut().find(|(owner_id, _)| owner_id == income_id)` is the FIRST matching entry *)
Fixpoint merge_income (owner : idmap) (income_id : list byte) (income : level_dist) : idmap :=
  match owner with
  | [] => [(income_id, income)]
  | (owner_id, existed) :: rest =>
    if bytes_eqb owner_id income_id then (owner_id, level_dist_merge existed income) :: rest
    else (owner_id, existed) :: merge_income rest income_id income
  end.

(* merge_levels (189-202) *)
Definition merge_levels (owner incomes : idmap) : idmap :=
  fold_left (fun o e => merge_income o (fst e) (snd e)) incomes owner.

(* StatisticInfo::merge (182-187) *)
Definition merge (a b : stat_info) : stat_info :=
  mkSI (merge_levels (si_app a) (si_app b))
       (merge_levels (si_ctx a) (si_ctx b))
       (merge_levels (si_ecu a) (si_ecu b))
       (si_non_verbose a || si_non_verbose b).
