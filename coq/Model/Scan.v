(* Scan.v — model of `collect_statistics` (src/statistics.rs:45-100): the scan loop over the blocking
   message reader (Model/Reader.v) that decodes the headers of every message slice and hands one
   [Statistic] per message to a collector.  Definitions only; lemmas are in Proofs/ScanProofs.v.

       loop {
           let slice = reader.next_message_slice()?;
           if slice.is_empty() { break; }
           (rest, storage_header)  = if with_storage_header { dlt_storage_header(slice)? } else { (slice, None) };
           (rest, standard_header) = dlt_standard_header(rest)?;
           (rest, extended_header, log_level, is_verbose) =
               if standard_header.has_extended_header { dlt_extended_header(rest)? .. } else { (rest, None, None, false) };
           collector.collect_statistic(Statistic { log_level, storage_header, standard_header,
                                                   extended_header, payload: rest, is_verbose })?;
       }
       Ok(())

   Every `?` ends the scan with Err: on the reader it is the reader's DltParseError, on a header parser it
   is From<nom::Err<DltParseError>> (Incomplete -> IncompleteParse, Error -> ParsingHickup,
   Failure -> Unrecoverable), the same conversion as [Reader.pres_outcome]. *)
From DltV.Model Require Import Bytes Nom Dlt Parse Stats Reader.
Open Scope N_scope.

(* ---------- Statistic (statistics.rs:29-42), all six fields ---------- *)
Record statistic_full := mkStatFull {
  fs_level : option log_level;                 (* log_level *)
  fs_storage : option storage_header;          (* storage_header *)
  fs_std : std_header;                         (* standard_header *)
  fs_ext : option ext_header;                  (* extended_header *)
  fs_payload : list byte;                      (* payload: the bytes of the slice behind all headers *)
  fs_verbose : bool }.                         (* is_verbose *)

(* the fields the standard collector reads (Stats.statistic) *)
Definition statistic_of_full (s : statistic_full) : statistic :=
  mkStat (fs_level s) (h_ecu (fs_std s))
         (match fs_ext s with Some x => Some (e_apid x, e_ctid x) | None => None end)
         (fs_verbose s).

(* the Statistic of a message value: its headers, and its serialised payload *)
Definition statistic_full_of_message (m : message) : statistic_full :=
  mkStatFull (match m_ext m with
              | Some x => match e_mtype x with MLog level => Some level | _ => None end
              | None => None
              end)
             (m_storage m) (m_header m) (m_ext m)
             (payload_bytes (h_endian (m_header m)) (m_payload m))
             (match m_ext m with Some x => e_verbose x | None => false end).

(* ---------- the body of the loop behind `slice.is_empty()` (statistics.rs:57-88) ---------- *)
Definition statistic_of_slice (with_sh : bool) (slice : list byte) : pres statistic_full :=
  let* (storage_header, rest_before_standard_header) :=
    (if with_sh
     then pmap (fun r => match r with Some header => Some (fst header) | None => None end)
               (dlt_storage_header slice)
     else POk None slice) in
  let* (standard_header, rest_after_standard_header) := dlt_standard_header rest_before_standard_header in
  let* (extended_header, rest_after_all_headers) :=
    (if h_has_ext standard_header
     then pmap Some (dlt_extended_header rest_after_standard_header)
     else POk None rest_after_standard_header) in
  let log_level :=
    match extended_header with
    | Some header => match e_mtype header with MLog level => Some level | _ => None end
    | None => None
    end in
  let is_verbose := match extended_header with Some header => e_verbose header | None => false end in
  POk (mkStatFull log_level storage_header standard_header extended_header rest_after_all_headers is_verbose)
      rest_after_all_headers.

(* ---------- how the scan ended ---------- *)
Inductive scan_end :=
| ScanOk                  (* Ok(()) : the reader delivered the empty slice *)
| ScanErr (e : perr)      (* Err(e) : a `?` fired *)
| ScanPanic               (* a Rust panic (none is reachable, Proofs/ScanProofs.v) *)
| ScanFuel.               (* the model's loop fuel ran out (never with the fuel of [scan]) *)

Definition pres_end {A} (r : pres A) : scan_end :=    (* only used on the non-Ok results *)
  match r with
  | POk _ _ => ScanOk
  | PIncomplete n => ScanErr (EIncomplete n)
  | PError => ScanErr EHickup
  | PFailure => ScanErr EUnrecoverable
  | PPanic => ScanPanic
  end.

Section Generic.
  Variable St : Type.                                               (* the BufReader *)
  Variable read_exact : N -> St -> xres * list byte * St.           (* source.read_exact(&mut buf[..]) *)

  (* one iteration: None = leave the loop with the given end, Some = the Statistic handed to the
     collector and the reader state for the next iteration *)
  Definition scan_step_with (with_sh : bool) (r : reader St)
    : (statistic_full * reader St) + scan_end :=
    match next_message_slice_with read_exact true with_sh r with
    | (NEmpty, _) => inr ScanOk
    | (NSlice slice, r') =>
      if is_nil slice then inr ScanOk
      else match statistic_of_slice with_sh slice with
           | POk s _ => inl (s, r')
           | bad => inr (pres_end bad)
           end
    | (NErr e, _) => inr (ScanErr e)
    | (NPanic, _) => inr ScanPanic
    | (NFuel, _) => inr ScanFuel
    end.

  (* the loop with a collector that accepts everything: the Statistics in the order of the calls *)
  Fixpoint scan_fuel_with (fuel : nat) (with_sh : bool) (r : reader St) : list statistic_full * scan_end :=
    match fuel with
    | O => ([], ScanFuel)
    | S fuel' =>
      match scan_step_with with_sh r with
      | inl (s, r') => let '(l, e) := scan_fuel_with fuel' with_sh r' in (s :: l, e)
      | inr e => ([], e)
      end
    end.

  (* the loop with an arbitrary collector: state C, `collect_statistic` may return Err (None) *)
  Section Collector.
    Variable C : Type.
    Variable collect_one : C -> statistic_full -> C + perr.
    Fixpoint scan_collect_with (fuel : nat) (with_sh : bool) (r : reader St) (c : C) : C * scan_end :=
      match fuel with
      | O => (c, ScanFuel)
      | S fuel' =>
        match scan_step_with with_sh r with
        | inl (s, r') =>
          match collect_one c s with
          | inl c' => scan_collect_with fuel' with_sh r' c'
          | inr e => (c, ScanErr e)
          end
        | inr e => (c, e)
        end
      end.
  End Collector.
End Generic.
Arguments scan_step_with {St}.
Arguments scan_fuel_with {St}.
Arguments scan_collect_with {St} read_exact {C}.

(* ---------- over the blocking reader ---------- *)
Definition scan_step (cap : N) := scan_step_with (br_read_exact cap).
Definition scan_fuel (cap : N) := scan_fuel_with (br_read_exact cap).

(* every iteration that does not end the loop consumes at least 4 bytes: |s| + 1 iterations suffice *)
Definition scan_cap (cap : N) (sigma : list N) (s : list byte) (with_sh : bool)
  : list statistic_full * scan_end :=
  scan_fuel cap (length s + 1) with_sh (new_reader sigma s).

(* DltMessageReader::new: BufReader with DEFAULT_BUFFER_CAPACITY *)
Definition scan (sigma : list N) (s : list byte) (with_sh : bool) : list statistic_full * scan_end :=
  scan_cap default_cap sigma s with_sh.

(* collect_statistics(&mut reader, &mut StatisticInfoCollector::default()) followed by collect():
   the standard collector (Model/Stats.v) never returns Err *)
Definition std_collect_one (c : collector) (s : statistic_full) : collector + perr :=
  inl (collect_statistic c (statistic_of_full s)).
Definition collect_statistics (sigma : list N) (s : list byte) (with_sh : bool) : stat_info * scan_end :=
  let '(c, e) := scan_collect_with (br_read_exact default_cap) std_collect_one
                   (length s + 1) with_sh (new_reader sigma s) collector_empty in
  (collect c, e).
