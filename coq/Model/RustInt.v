(* RustInt.v — the two outcomes of a Rust expression that may panic (debug-checked
   arithmetic, slice ranges), and the wrap of an `as uN` cast. *)
From DltV.Model Require Import Bytes.
Open Scope N_scope.

Inductive chk (A : Type) := Val (a : A) | Panic.
Arguments Val {A} a.
Arguments Panic {A}.

Definition chk_bind {A B} (x : chk A) (f : A -> chk B) : chk B :=
  match x with Val a => f a | Panic => Panic end.

Definition wrap (bits : N) (n : N) : N := n mod 2 ^ bits.   (* `n as u<bits>` *)

(* debug-checked unsigned arithmetic on u<bits> *)
Definition add_chk (bits a b : N) : chk N := if a + b <? 2 ^ bits then Val (a + b) else Panic.
Definition mul_chk (bits a b : N) : chk N := if a * b <? 2 ^ bits then Val (a * b) else Panic.
Definition sub_chk (a b : N) : chk N := if b <=? a then Val (a - b) else Panic.

Definition is_panic {A} (x : chk A) : bool := match x with Panic => true | _ => false end.
