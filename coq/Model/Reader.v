(* Reader.v — the blocking message reader (src/read.rs) over std::io::BufReader, with the
   byte source modelled as a stream plus a fragmentation / interruption schedule.
   Definitions only (extracted and run against the Rust reader); lemmas are in
   Proofs/ReaderProofs.v.

   REPAIRED reader: right after `parse_length(..)?` the pending fix inserts
       if message_len < HEADER_MIN_LENGTH { return Err(DltParseError::ParsingHickup(..)); }
   The pre-repair code is kept as [next_message_slice_pinned] in the last section.

   Main invariant (made explicit by [br_view]): at every point
       bytes handed out so far ++ BufReader's internal buffer ++ unread source = original stream. *)
From DltV.Model Require Import Bytes Nom Dlt Parse.
Open Scope N_scope.

(* ---------- N-indexed prefix / suffix ----------
   [takeN n l = firstn (N.to_nat n) l] and [dropN n l = skipn (N.to_nat n) l] (ReaderProofs), written
   by recursion on the list so that the extracted code never builds a unary number of size n
   (n is the 10 MiB BufReader capacity at one call site). *)
Fixpoint takeN {A} (n : N) (l : list A) {struct l} : list A :=
  match l with
  | [] => []
  | x :: l' => if n =? 0 then [] else x :: takeN (N.pred n) l'
  end.
Fixpoint dropN {A} (n : N) (l : list A) {struct l} : list A :=
  match l with
  | [] => []
  | x :: l' => if n =? 0 then l else dropN (N.pred n) l'
  end.
Definition is_nil {A} (l : list A) : bool := match l with [] => true | _ :: _ => false end.
(* n <= |l|, looking at no more than n elements *)
Definition fits {A} (n : N) (l : list A) : bool := len (takeN n l) =? n.

(* ---------- what the caller of read_message observes ---------- *)
Inductive perr := EIncomplete (needed : option N) | EHickup | EUnrecoverable.
Inductive outcome := OMsg (pm : parsed_message) | OErr (e : perr) | OPanic.

(* `dlt_message(..)?.1` : From<nom::Err<DltParseError>> (parse.rs:84-88, 215-226) *)
Definition pres_outcome (r : pres parsed_message) : outcome :=
  match r with
  | POk pm _ => OMsg pm
  | PIncomplete n => OErr (EIncomplete n)
  | PError => OErr EHickup
  | PFailure => OErr EUnrecoverable
  | PPanic => OPanic
  end.

(* ---------- A. the byte source: a stream and a schedule ----------
   Each `read(buf)` consumes one schedule entry:
     0      Err(ErrorKind::Interrupted), nothing consumed
     k > 0  Ok(min(k, |buf|, remaining))
   exhausted schedule: Ok(min(|buf|, remaining)).  Ok(0) happens only at the true end. *)
Record source := mkSrc { src_sched : list N; src_rest : list byte }.

Inductive rres := ROk (bs : list byte) | RInterrupted.

Definition src_read (want : N) (s : source) : rres * source :=
  let rest := src_rest s in
  match src_sched s with
  | [] => (ROk (takeN want rest), mkSrc [] (dropN want rest))
  | k :: sg =>
    if k =? 0 then (RInterrupted, mkSrc sg rest)
    else
      let n := N.min k want in                       (* takeN stops at the end of the stream *)
      (ROk (takeN n rest), mkSrc sg (dropN n rest))
  end.

(* ---------- B. std::io::BufReader ----------
   [br_buf] = buffer()[pos..filled], the bytes fetched from the source and not yet consumed. *)
Record bufreader := mkBR { br_buf : list byte; br_src : source }.

(* read.rs:24 *)
Definition default_cap : N := 10 * 1024 * 1024.

Definition br_view (br : bufreader) : list byte := br_buf br ++ src_rest (br_src br).
Definition br_sched (br : bufreader) : list N := src_sched (br_src br).

(* Buffer::fill_buf (bufreader/buffer.rs): when pos >= filled, ONE read of the source into the
   whole internal buffer; an error (Interrupted) leaves the buffer empty and propagates.
   Result: true = Ok(self.buffer()), false = Err(Interrupted). *)
Definition br_fill_buf (cap : N) (br : bufreader) : bool * bufreader :=
  if is_nil (br_buf br) then
    match src_read cap (br_src br) with
    | (ROk bs, s') => (true, mkBR bs s')
    | (RInterrupted, s') => (false, mkBR [] s')
    end
  else (true, br).

(* <BufReader as Read>::read (bufreader.rs:338-350) *)
Definition br_read (cap : N) (want : N) (br : bufreader) : rres * bufreader :=
  if is_nil (br_buf br) && (cap <=? want) then
    (* bypass: discard_buffer(); self.inner.read(buf) *)
    let '(r, s') := src_read want (br_src br) in (r, mkBR [] s')
  else
    match br_fill_buf cap br with
    | (false, br') => (RInterrupted, br')
    | (true, br') =>
      (* rem.read(buf); self.consume(nread): min(|buf|, available) bytes *)
      (ROk (takeN want (br_buf br')), mkBR (dropN want (br_buf br')) (br_src br'))
    end.

(* result of a read_exact: Ok(()), Err(UnexpectedEof), or the model's loop fuel ran out *)
Inductive xres := XOk | XEof | XFuel.

(* io::default_read_exact (io/mod.rs:554-566): [want] = |buf| still to fill, [got] = the bytes
   written to the front of the caller's buffer so far *)
Fixpoint default_read_exact (fuel : nat) (cap : N) (want : N) (got : list byte) (br : bufreader)
  : xres * list byte * bufreader :=
  if want =? 0 then (XOk, got, br)
  else
    match fuel with
    | O => (XFuel, got, br)
    | S fuel' =>
      match br_read cap want br with
      | (RInterrupted, br') => default_read_exact fuel' cap want got br'       (* retry *)
      | (ROk [], br') => (XEof, got, br')                                      (* Ok(0) => break *)
      | (ROk bs, br') => default_read_exact fuel' cap (want - len bs) (got ++ bs) br'
      end
    end.

(* every iteration consumes a schedule entry, or delivers at least one byte, or ends:
   |schedule| + min(want, available) + 1 iterations suffice; this is an upper bound of it that
   inspects at most [want] bytes of each part *)
Definition read_exact_fuel (want : N) (br : bufreader) : nat :=
  length (br_sched br) + length (takeN want (br_buf br)) + length (takeN want (src_rest (br_src br))) + 1.

(* <BufReader as Read>::read_exact (bufreader.rs:375-381): fast path via Buffer::consume_with *)
Definition br_read_exact (cap : N) (want : N) (br : bufreader) : xres * list byte * bufreader :=
  if fits want (br_buf br) then
    (XOk, takeN want (br_buf br), mkBR (dropN want (br_buf br)) (br_src br))
  else default_read_exact (read_exact_fuel want br) cap want [] br.

(* ---------- C. DltMessageReader / read_message, generic in the buffered source ----------
   read.rs and stream.rs are the same text up to `.await`; the code is written once over an
   abstract `read_exact` and instantiated for the blocking and the async BufReader. *)

(* read.rs:27-28 *)
Definition message_max_len : N := 16 + 65535.

(* buf[off .. off + |bs|] := bs *)
Definition blit (off : N) (bs : list byte) (buf : list byte) : list byte :=
  takeN off buf ++ bs ++ dropN (off + len bs) buf.
(* buf[a..b]; the range check is [range_ok] *)
Definition sub (a b : N) (buf : list byte) : list byte := takeN (b - a) (dropN a buf).
Definition range_ok (a b : N) (buf : list byte) : bool := (a <=? b) && fits b buf.

Inductive nms_res :=
| NEmpty                       (* Ok(&[]) *)
| NSlice (bs : list byte)      (* Ok(&self.buffer[..total_len]) *)
| NErr (e : perr)
| NPanic
| NFuel.

Inductive rm_res := RMNone | RMOut (o : outcome) | RMFuel.

Section Generic.
  Variable St : Type.                                               (* the BufReader *)
  Variable read_exact : N -> St -> xres * list byte * St.           (* source.read_exact(&mut buf[..]) *)

  Record reader := mkReader { rd_src : St; rd_scratch : list byte }.  (* self.source, self.buffer *)

  (* next_message_slice (read.rs:84-108 / stream.rs:84-109).  [repaired] = the length check is present. *)
  Definition next_message_slice_with (repaired : bool) (with_sh : bool) (r : reader) : nms_res * reader :=
    let buffer := rd_scratch r in
    let storage_len := if with_sh then 16 else 0 in
    let header_len := storage_len + 4 in
    if negb (range_ok 0 header_len buffer) then (NPanic, r)          (* debug_assert!, &mut buffer[..header_len] *)
    else
      let '(x, got, st1) := read_exact header_len (rd_src r) in
      let buffer1 := blit 0 got buffer in
      match x with
      | XFuel => (NFuel, mkReader st1 buffer1)
      | XEof => (NEmpty, mkReader st1 buffer1)                       (* .is_err() => return Ok(&[]) *)
      | XOk =>
        match parse_length (sub storage_len header_len buffer1) with
        | PIncomplete n => (NErr (EIncomplete n), mkReader st1 buffer1)
        | PError => (NErr EHickup, mkReader st1 buffer1)
        | PFailure => (NErr EUnrecoverable, mkReader st1 buffer1)
        | PPanic => (NPanic, mkReader st1 buffer1)
        | POk message_len _ =>
          if repaired && (message_len <? 4) then (NErr EHickup, mkReader st1 buffer1)
          else
            let total_len := storage_len + message_len in
            if negb (range_ok header_len total_len buffer1)          (* debug_assert!, &mut buffer[header_len..total_len] *)
            then (NPanic, mkReader st1 buffer1)
            else
              let '(x2, got2, st2) := read_exact (total_len - header_len) st1 in
              let buffer2 := blit header_len got2 buffer1 in
              match x2 with
              | XFuel => (NFuel, mkReader st2 buffer2)
              | XEof => (NErr EUnrecoverable, mkReader st2 buffer2)  (* `?` : From<io::Error> *)
              | XOk => (NSlice (takeN total_len buffer2), mkReader st2 buffer2)
              end
        end
      end.

  (* read_message (read.rs:31-46) *)
  Definition read_message_with (repaired : bool) (f : option processed_filter) (with_sh : bool) (r : reader)
    : rm_res * reader :=
    match next_message_slice_with repaired with_sh r with
    | (NEmpty, r') => (RMNone, r')
    | (NSlice bs, r') =>
      if is_nil bs then (RMNone, r') else (RMOut (pres_outcome (dlt_message bs f with_sh)), r')
    | (NErr e, r') => (RMOut (OErr e), r')
    | (NPanic, r') => (RMOut OPanic, r')
    | (NFuel, r') => (RMFuel, r')
    end.

  (* the caller's loop: call read_message until Ok(None).  An Err does not end the loop; a panic
     does (the outcome list then ends with OPanic).  The bool is false iff fuel ran out. *)
  Fixpoint run_with (repaired : bool) (fuel : nat) (f : option processed_filter) (with_sh : bool) (r : reader)
    : list outcome * bool :=
    match fuel with
    | O => ([], false)
    | S fuel' =>
      match read_message_with repaired f with_sh r with
      | (RMNone, _) => ([], true)
      | (RMFuel, _) => ([], false)
      | (RMOut OPanic, _) => ([OPanic], true)
      | (RMOut o, r') => let '(l, b) := run_with repaired fuel' f with_sh r' in (o :: l, b)
      end
    end.
End Generic.
Arguments mkReader {St}.
Arguments rd_src {St}.
Arguments rd_scratch {St}.
Arguments next_message_slice_with {St}.
Arguments read_message_with {St}.
Arguments run_with {St}.

(* ---------- the blocking reader ---------- *)
(* DltMessageReader::new (read.rs:57-79): vec![0u8; message_max_len] *)
Definition new_scratch : list byte := repeat x00 (N.to_nat message_max_len).
Definition new_reader (sigma : list N) (s : list byte) : reader bufreader :=
  mkReader (mkBR [] (mkSrc sigma s)) new_scratch.

Definition next_message_slice (cap : N) := next_message_slice_with (br_read_exact cap) true.
Definition read_message (cap : N) := read_message_with (br_read_exact cap) true.

Definition reader_run (fuel : nat) (sigma : list N) (s : list byte) (f : option processed_filter) (with_sh : bool)
  : list outcome * bool :=
  run_with (br_read_exact default_cap) true fuel f with_sh (new_reader sigma s).

(* every call that does not end the loop consumes at least 4 bytes *)
Definition reader_run_default (sigma : list N) (s : list byte) (f : option processed_filter) (with_sh : bool)
  : list outcome * bool :=
  reader_run (length s + 1) sigma s f with_sh.

(* same with an explicit BufReader capacity (DltMessageReader::with_capacity) *)
Definition reader_run_cap (cap : N) (sigma : list N) (s : list byte) (f : option processed_filter) (with_sh : bool)
  : list outcome * bool :=
  run_with (br_read_exact cap) true (length s + 1) f with_sh (new_reader sigma s).

(* ---------- the pre-repair reader (pinned source, read.rs:84-108 as committed) ---------- *)
Section Pinned.
  Definition next_message_slice_pinned (cap : N) := next_message_slice_with (br_read_exact cap) false.
  Definition read_message_pinned (cap : N) := read_message_with (br_read_exact cap) false.
  Definition reader_run_pinned (sigma : list N) (s : list byte) (f : option processed_filter) (with_sh : bool)
    : list outcome * bool :=
    run_with (br_read_exact default_cap) false (length s + 1) f with_sh (new_reader sigma s).
End Pinned.
