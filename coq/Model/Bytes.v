(* Bytes.v — bytes as Coq's [Byte.byte], conversion to/from N, endian-parametric
   fixed-width integer fields, two's complement.  Definitions only; lemmas live in
   Proofs/BytesLemmas.v so that the model stays runnable when a proof breaks. *)
From Coq Require Export List NArith ZArith Bool.
From Coq.Strings Require Export Byte.
Export ListNotations.
Open Scope N_scope.

Definition b2n (b : byte) : N := Byte.to_N b.
Definition n2b (n : N) : byte :=
  match Byte.of_N (n mod 256) with Some b => b | None => x00 end.

Definition is_nul (b : byte) : bool := (b2n b =? 0).

(* byte order of multi-byte payload fields *)
Inductive endian := LE | BE.
Definition endian_eqb (a b : endian) : bool :=
  match a, b with LE, LE | BE, BE => true | _, _ => false end.

(* little-endian value of a byte list; total, no width limit *)
Fixpoint le_get (bs : list byte) : N :=
  match bs with
  | [] => 0
  | b :: r => b2n b + 256 * le_get r
  end.

(* the k low-order bytes of v, least significant first (this is "v as uK" + to_le_bytes) *)
Fixpoint le_put (k : nat) (v : N) : list byte :=
  match k with
  | O => []
  | S k' => n2b v :: le_put k' (v / 256)
  end.

Definition get_uint (e : endian) (bs : list byte) : N :=
  match e with LE => le_get bs | BE => le_get (rev bs) end.
Definition put_uint (e : endian) (k : nat) (v : N) : list byte :=
  match e with LE => le_put k v | BE => rev (le_put k v) end.

(* two's complement, [bits] wide *)
Definition to_signed (bits : N) (n : N) : Z :=
  if n <? 2 ^ (bits - 1) then Z.of_N n else (Z.of_N n - Z.of_N (2 ^ bits))%Z.
Definition of_signed (bits : N) (z : Z) : N :=
  Z.to_N (z mod Z.of_N (2 ^ bits)).

Definition in_unsigned (bits : N) (n : N) : bool := n <? 2 ^ bits.
Definition in_signed (bits : N) (z : Z) : bool :=
  ((- Z.of_N (2 ^ (bits - 1)) <=? z) && (z <? Z.of_N (2 ^ (bits - 1))))%Z.

Definition get_sint (e : endian) (bs : list byte) : Z :=
  to_signed (8 * N.of_nat (length bs)) (get_uint e bs).
Definition put_sint (e : endian) (k : nat) (z : Z) : list byte :=
  put_uint e k (of_signed (8 * N.of_nat k) z).

Definition len {A} (l : list A) : N := N.of_nat (length l).

(* all 256 bytes in numeric order — used by the OCaml driver to build its table *)
Definition all_bytes : list byte :=
  map (fun n => n2b (N.of_nat n)) (seq 0 256).

Definition byte_eqb (a b : byte) : bool := (b2n a =? b2n b).
Fixpoint bytes_eqb (a b : list byte) : bool :=
  match a, b with
  | [], [] => true
  | x :: a', y :: b' => byte_eqb x y && bytes_eqb a' b'
  | _, _ => false
  end.

(* ASCII literal helper: bytes of a Coq string are not needed; constants are spelled out *)
Definition pat_DLT1 : list byte := [x44; x4c; x54; x01].
