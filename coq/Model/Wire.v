(* Wire.v — exchange format between the model and the Rust harness: flat token lists.
   Every case is  (op : N, args : list wtok)  and every result a  list wtok.
   The printers/readers are Gallina so that the OCaml driver is I/O only and the same
   functions can be evaluated by vm_compute inside Coq (Smoke check). *)
From DltV.Model Require Import Bytes RustInt Utf8 Nom Dlt Parse.
Open Scope N_scope.

Inductive wtok := WN (n : N) | WZ (z : Z) | WB (bs : list byte).

(* ---------- writers ---------- *)
Definition w_bool (b : bool) : list wtok := [WN (if b then 1 else 0)].
Definition w_opt {A} (w : A -> list wtok) (o : option A) : list wtok :=
  match o with Some a => WN 1 :: w a | None => [WN 0] end.
Definition w_list {A} (w : A -> list wtok) (l : list A) : list wtok :=
  WN (len l) :: flat_map w l.
Definition w_n (n : N) : list wtok := [WN n].
Definition w_z (z : Z) : list wtok := [WZ z].
Definition w_bytes (b : list byte) : list wtok := [WB b].
Definition w_endian (e : endian) : list wtok := [WN (match e with LE => 0 | BE => 1 end)].

Definition w_log_level (l : log_level) : list wtok :=
  match l with
  | Fatal => [WN 1] | LError => [WN 2] | Warn => [WN 3] | Info => [WN 4] | Debug => [WN 5]
  | Verbose => [WN 6] | LInvalid n => [WN 7; WN n]
  end.
Definition w_mtype (t : message_type) : list wtok :=
  match t with
  | MLog l => WN 0 :: w_log_level l
  | MAppTrace a => WN 1 :: match a with
      | AVariable => [WN 1] | AFunctionIn => [WN 2] | AFunctionOut => [WN 3] | AState => [WN 4]
      | AVfb => [WN 5] | AInvalid n => [WN 6; WN n] end
  | MNwTrace n => WN 2 :: match n with
      | NIpc => [WN 1] | NCan => [WN 2] | NFlexray => [WN 3] | NMost => [WN 4] | NEthernet => [WN 5]
      | NSomeip => [WN 6] | NInvalid => [WN 0] | NUserDefined v => [WN 7; WN v] end
  | MControl c => WN 3 :: match c with
      | CRequest => [WN 1] | CResponse => [WN 2] | CUnknown n => [WN 3; WN n] end
  | MUnknown a b => [WN 4; WN a; WN b]
  end.
Definition w_control (c : control_type) : list wtok :=
  match c with CRequest => [WN 1] | CResponse => [WN 2] | CUnknown n => [WN 3; WN n] end.

Definition w_tlen (l : type_length) : N :=
  match l with BL8 => 8 | BL16 => 16 | BL32 => 32 | BL64 => 64 | BL128 => 128 end.
Definition w_fw (w : float_width) : N := match w with W32 => 32 | W64 => 64 end.
Definition w_kind (k : ti_kind) : list wtok :=
  match k with
  | KBool => [WN 0; WN 0] | KSigned l => [WN 1; WN (w_tlen l)] | KSignedFixed w => [WN 2; WN (w_fw w)]
  | KUnsigned l => [WN 3; WN (w_tlen l)] | KUnsignedFixed w => [WN 4; WN (w_fw w)]
  | KFloat w => [WN 5; WN (w_fw w)] | KString => [WN 6; WN 0] | KRaw => [WN 7; WN 0]
  end.
Definition w_coding (c : string_coding) : list wtok :=
  match c with SAscii => [WN 0; WN 0] | SUtf8 => [WN 1; WN 0] | SReserved n => [WN 2; WN n] end.
Definition w_ti (t : type_info) : list wtok :=
  w_kind (ti_kind_of t) ++ w_coding (ti_coding t) ++ w_bool (ti_var_info t) ++ w_bool (ti_trace_info t).
Definition w_fp (f : fixed_point) : list wtok :=
  WN (fp_quant f) :: match fp_offset f with FI32 z => [WN 32; WZ z] | FI64 z => [WN 64; WZ z] end.
Definition w_value (v : value) : list wtok :=
  match v with
  | VBool n => [WN 0; WN n] | VU8 n => [WN 1; WN n] | VU16 n => [WN 2; WN n] | VU32 n => [WN 3; WN n]
  | VU64 n => [WN 4; WN n] | VU128 n => [WN 5; WN n]
  | VI8 z => [WN 6; WZ z] | VI16 z => [WN 7; WZ z] | VI32 z => [WN 8; WZ z] | VI64 z => [WN 9; WZ z]
  | VI128 z => [WN 10; WZ z]
  | VF32 b => [WN 11; WN b] | VF64 b => [WN 12; WN b]
  | VString s => [WN 13; WB s] | VRaw b => [WN 14; WB b]
  end.
Definition w_arg (a : argument) : list wtok :=
  w_ti (a_ti a) ++ w_opt w_bytes (a_name a) ++ w_opt w_bytes (a_unit a)
  ++ w_opt w_fp (a_fp a) ++ w_value (a_value a).
Definition w_payload (p : payload) : list wtok :=
  match p with
  | PVerbose args => WN 0 :: w_list w_arg args
  | PNonVerbose id bs => [WN 1; WN id; WB bs]
  | PControl ct bs => WN 2 :: w_control ct ++ [WB bs]
  | PNetworkTrace sl => WN 3 :: w_list w_bytes sl
  end.
Definition w_ts (t : timestamp) : list wtok := [WN (ts_secs t); WN (ts_micros t)].
Definition w_sh (s : storage_header) : list wtok := w_ts (sh_ts s) ++ [WB (sh_ecu s)].
Definition w_std (h : std_header) : list wtok :=
  [WN (h_version h)] ++ w_endian (h_endian h) ++ w_bool (h_has_ext h) ++ [WN (h_mcnt h)]
  ++ w_opt w_bytes (h_ecu h) ++ w_opt w_n (h_session h) ++ w_opt w_n (h_timestamp h)
  ++ [WN (h_payload_length h)].
Definition w_ext (x : ext_header) : list wtok :=
  w_bool (e_verbose x) ++ [WN (e_noar x)] ++ w_mtype (e_mtype x) ++ [WB (e_apid x); WB (e_ctid x)].
Definition w_msg (m : message) : list wtok :=
  w_opt w_sh (m_storage m) ++ w_std (m_header m) ++ w_opt w_ext (m_ext m) ++ w_payload (m_payload m).

Definition w_pres {A} (w : A -> list wtok) (x : pres A) : list wtok :=
  match x with
  | POk v rest => WN 0 :: w v ++ [WN (len rest)]
  | PIncomplete None => [WN 1; WN 0]
  | PIncomplete (Some n) => [WN 1; WN 1; WN n]
  | PError => [WN 2]
  | PFailure => [WN 3]
  | PPanic => [WN 4]
  end.
Definition w_chk {A} (w : A -> list wtok) (x : chk A) : list wtok :=
  match x with Val a => WN 0 :: w a | Panic => [WN 1] end.
Definition w_parsed (p : parsed_message) : list wtok :=
  match p with
  | Item m => WN 0 :: w_msg m
  | FilteredOut n => [WN 1; WN n]
  | Invalid => [WN 2]
  end.

(* ---------- readers ---------- *)
Definition rd (A : Type) := list wtok -> option (A * list wtok).
Definition rbind {A B} (x : rd A) (f : A -> rd B) : rd B :=
  fun ts => match x ts with Some (a, ts') => f a ts' | None => None end.
Definition rret {A} (a : A) : rd A := fun ts => Some (a, ts).
Definition rfail {A} : rd A := fun _ => None.
Notation "'rlet' x := p 'in' q" := (rbind p (fun x => q))
  (at level 200, x name, p at level 100, q at level 200).

Definition r_n : rd N := fun ts => match ts with WN n :: r => Some (n, r) | _ => None end.
Definition r_z : rd Z := fun ts => match ts with WZ z :: r => Some (z, r) | WN n :: r => Some (Z.of_N n, r) | _ => None end.
Definition r_bytes : rd (list byte) := fun ts => match ts with WB b :: r => Some (b, r) | _ => None end.
Definition r_bool : rd bool := rlet n := r_n in rret (negb (n =? 0)).
Definition r_opt {A} (r : rd A) : rd (option A) :=
  rlet n := r_n in if n =? 0 then rret None else rlet a := r in rret (Some a).
Fixpoint r_rep {A} (r : rd A) (n : nat) : rd (list A) :=
  match n with
  | O => rret []
  | S n' => rlet a := r in rlet l := r_rep r n' in rret (a :: l)
  end.
Definition r_list {A} (r : rd A) : rd (list A) := rlet n := r_n in r_rep r (N.to_nat n).
Definition r_endian : rd endian := rlet n := r_n in rret (if n =? 0 then LE else BE).

Definition r_log_level : rd log_level :=
  rlet n := r_n in
  match n with
  | 1 => rret Fatal | 2 => rret LError | 3 => rret Warn | 4 => rret Info | 5 => rret Debug
  | 6 => rret Verbose | _ => rlet v := r_n in rret (LInvalid v)
  end.
Definition r_control : rd control_type :=
  rlet n := r_n in
  match n with 1 => rret CRequest | 2 => rret CResponse | _ => rlet v := r_n in rret (CUnknown v) end.
Definition r_mtype : rd message_type :=
  rlet k := r_n in
  match k with
  | 0 => rlet l := r_log_level in rret (MLog l)
  | 1 => rlet n := r_n in
         match n with
         | 1 => rret (MAppTrace AVariable) | 2 => rret (MAppTrace AFunctionIn)
         | 3 => rret (MAppTrace AFunctionOut) | 4 => rret (MAppTrace AState) | 5 => rret (MAppTrace AVfb)
         | _ => rlet v := r_n in rret (MAppTrace (AInvalid v))
         end
  | 2 => rlet n := r_n in
         match n with
         | 0 => rret (MNwTrace NInvalid) | 1 => rret (MNwTrace NIpc) | 2 => rret (MNwTrace NCan)
         | 3 => rret (MNwTrace NFlexray) | 4 => rret (MNwTrace NMost) | 5 => rret (MNwTrace NEthernet)
         | 6 => rret (MNwTrace NSomeip) | _ => rlet v := r_n in rret (MNwTrace (NUserDefined v))
         end
  | 3 => rlet c := r_control in rret (MControl c)
  | _ => rlet a := r_n in rlet b := r_n in rret (MUnknown a b)
  end.
Definition r_tlen (n : N) : type_length :=
  match n with 8 => BL8 | 16 => BL16 | 32 => BL32 | 64 => BL64 | _ => BL128 end.
Definition r_fw (n : N) : float_width := match n with 32 => W32 | _ => W64 end.
Definition r_kind : rd ti_kind :=
  rlet k := r_n in rlet w := r_n in
  rret (match k with
        | 0 => KBool | 1 => KSigned (r_tlen w) | 2 => KSignedFixed (r_fw w) | 3 => KUnsigned (r_tlen w)
        | 4 => KUnsignedFixed (r_fw w) | 5 => KFloat (r_fw w) | 6 => KString | _ => KRaw
        end).
Definition r_coding : rd string_coding :=
  rlet k := r_n in rlet v := r_n in
  rret (match k with 0 => SAscii | 1 => SUtf8 | _ => SReserved v end).
Definition r_ti : rd type_info :=
  rlet k := r_kind in rlet c := r_coding in rlet v := r_bool in rlet t := r_bool in rret (mkTI k c v t).
Definition r_fp : rd fixed_point :=
  rlet q := r_n in rlet w := r_n in rlet z := r_z in
  rret (mkFP q (if w =? 32 then FI32 z else FI64 z)).
Definition r_value : rd value :=
  rlet k := r_n in
  match k with
  | 0 => rlet n := r_n in rret (VBool n) | 1 => rlet n := r_n in rret (VU8 n)
  | 2 => rlet n := r_n in rret (VU16 n) | 3 => rlet n := r_n in rret (VU32 n)
  | 4 => rlet n := r_n in rret (VU64 n) | 5 => rlet n := r_n in rret (VU128 n)
  | 6 => rlet z := r_z in rret (VI8 z) | 7 => rlet z := r_z in rret (VI16 z)
  | 8 => rlet z := r_z in rret (VI32 z) | 9 => rlet z := r_z in rret (VI64 z)
  | 10 => rlet z := r_z in rret (VI128 z)
  | 11 => rlet n := r_n in rret (VF32 n) | 12 => rlet n := r_n in rret (VF64 n)
  | 13 => rlet b := r_bytes in rret (VString b)
  | _ => rlet b := r_bytes in rret (VRaw b)
  end.
Definition r_arg : rd argument :=
  rlet t := r_ti in rlet n := r_opt r_bytes in rlet u := r_opt r_bytes in
  rlet f := r_opt r_fp in rlet v := r_value in rret (mkArg t n u f v).
Definition r_payload : rd payload :=
  rlet k := r_n in
  match k with
  | 0 => rlet a := r_list r_arg in rret (PVerbose a)
  | 1 => rlet id := r_n in rlet b := r_bytes in rret (PNonVerbose id b)
  | 2 => rlet c := r_control in rlet b := r_bytes in rret (PControl c b)
  | _ => rlet s := r_list r_bytes in rret (PNetworkTrace s)
  end.
Definition r_ts : rd timestamp := rlet s := r_n in rlet u := r_n in rret (mkTS s u).
Definition r_sh : rd storage_header := rlet t := r_ts in rlet e := r_bytes in rret (mkSH t e).
Definition r_std : rd std_header :=
  rlet v := r_n in rlet e := r_endian in rlet x := r_bool in rlet c := r_n in
  rlet ecu := r_opt r_bytes in rlet s := r_opt r_n in rlet t := r_opt r_n in rlet p := r_n in
  rret (mkStd v e x c ecu s t p).
Definition r_ext : rd ext_header :=
  rlet v := r_bool in rlet n := r_n in rlet t := r_mtype in rlet a := r_bytes in rlet c := r_bytes in
  rret (mkExt v n t a c).
Definition r_msg : rd message :=
  rlet s := r_opt r_sh in rlet h := r_std in rlet x := r_opt r_ext in rlet p := r_payload in
  rret (mkMsg s h x p).
Definition r_extcfg : rd ext_config :=
  rlet t := r_mtype in rlet a := r_bytes in rlet c := r_bytes in rret (mkExtCfg t a c).
Definition r_cfg : rd message_config :=
  rlet v := r_n in rlet c := r_n in rlet e := r_endian in rlet ecu := r_opt r_bytes in
  rlet s := r_opt r_n in rlet t := r_opt r_n in rlet p := r_payload in rlet x := r_opt r_extcfg in
  rret (mkCfg v c e ecu s t p x).
Definition r_filter : rd filter_config :=
  rlet l := r_opt r_n in rlet a := r_opt (r_list r_bytes) in rlet e := r_opt (r_list r_bytes) in
  rlet c := r_opt (r_list r_bytes) in rlet ac := r_z in rlet cc := r_z in
  rret (mkFC l a e c ac cc).

Definition run_rd {A} (r : rd A) (ts : list wtok) (k : A -> list wtok) : list wtok :=
  match r ts with
  | Some (a, []) => k a
  | _ => [WN 999]                    (* malformed case: never produced by the harness *)
  end.
