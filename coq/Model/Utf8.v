(* Utf8.v — well-formed UTF-8 (Unicode table 3-7), as core::str::from_utf8 decides it.
   [valid_up_to l] is Utf8Error::valid_up_to(): the length of the longest prefix of [l]
   that consists of complete well-formed sequences. *)
From DltV.Model Require Import Bytes.
Open Scope N_scope.

Definition in_range (lo hi b : N) : bool := (lo <=? b) && (b <=? hi).
Definition is_cont (b : N) : bool := in_range 128 191 b.            (* 80..BF *)
Definition lead2 (b : N) : bool := in_range 194 223 b.              (* C2..DF *)
Definition lead3 (b : N) : bool := in_range 224 239 b.              (* E0..EF *)
Definition lead4 (b : N) : bool := in_range 240 244 b.              (* F0..F4 *)
Definition second3 (b0 b1 : N) : bool :=
  if b0 =? 224 then in_range 160 191 b1                             (* E0 A0..BF *)
  else if b0 =? 237 then in_range 128 159 b1                        (* ED 80..9F *)
  else is_cont b1.
Definition second4 (b0 b1 : N) : bool :=
  if b0 =? 240 then in_range 144 191 b1                             (* F0 90..BF *)
  else if b0 =? 244 then in_range 128 143 b1                        (* F4 80..8F *)
  else is_cont b1.

Fixpoint valid_up_to (l : list byte) : nat :=
  match l with
  | [] => O
  | b0 :: r0 =>
    let n0 := b2n b0 in
    if n0 <? 128 then S (valid_up_to r0)
    else if lead2 n0 then
      match r0 with
      | b1 :: r1 => if is_cont (b2n b1) then S (S (valid_up_to r1)) else O
      | _ => O
      end
    else if lead3 n0 then
      match r0 with
      | b1 :: b2 :: r2 =>
        if second3 n0 (b2n b1) && is_cont (b2n b2) then S (S (S (valid_up_to r2))) else O
      | _ => O
      end
    else if lead4 n0 then
      match r0 with
      | b1 :: b2 :: b3 :: r3 =>
        if second4 n0 (b2n b1) && is_cont (b2n b2) && is_cont (b2n b3)
        then S (S (S (S (valid_up_to r3)))) else O
      | _ => O
      end
    else O
  end.

Definition utf8_prefix (l : list byte) : list byte := firstn (valid_up_to l) l.
Definition valid_utf8 (l : list byte) : bool := Nat.eqb (valid_up_to l) (length l).
Definition no_nul (l : list byte) : bool := forallb (fun b => negb (is_nul b)) l.
