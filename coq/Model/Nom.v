(* Nom.v — the nom 7.1.3 *streaming* primitives dlt-core uses, over [list byte].
   Error texts are not modelled; the public DltParseError variant is a function of the
   nom error kind:  PError ~ ParsingHickup, PFailure ~ Unrecoverable,
   PIncomplete n ~ IncompleteParse{needed = n}.  PPanic marks a Rust panic
   (checked subtraction, slice range) — no nom primitive produces it. *)
From DltV.Model Require Import Bytes.
Open Scope N_scope.

Inductive pres (A : Type) :=
| POk (v : A) (rest : list byte)
| PIncomplete (needed : option N)
| PError
| PFailure
| PPanic.
Arguments POk {A} v rest.
Arguments PIncomplete {A} needed.
Arguments PError {A}.
Arguments PFailure {A}.
Arguments PPanic {A}.

Definition pbind {A B} (x : pres A) (f : A -> list byte -> pres B) : pres B :=
  match x with
  | POk v r => f v r
  | PIncomplete n => PIncomplete n
  | PError => PError
  | PFailure => PFailure
  | PPanic => PPanic
  end.

Notation "'let*' ( x , r ) := p 'in' q" := (pbind p (fun x r => q))
  (at level 200, x name, r name, p at level 100, q at level 200).

Definition pmap {A B} (f : A -> B) (x : pres A) : pres B :=
  pbind x (fun v r => POk (f v) r).

(* Needed::new(n): zero means Unknown *)
Definition needed_new (n : N) : option N := if n =? 0 then None else Some n.

(* bytes::streaming::take *)
Definition take (n : N) (i : list byte) : pres (list byte) :=
  if len i <? n then PIncomplete (needed_new (n - len i))
  else POk (firstn (N.to_nat n) i) (skipn (N.to_nat n) i).

(* Compare<&[u8]> for &[u8]: first differing position among the common length decides *)
Fixpoint compare_tag (t i : list byte) : option bool :=   (* Some true = Ok, Some false = Error, None = Incomplete *)
  match t, i with
  | [], _ => Some true
  | _ :: _, [] => None
  | a :: t', b :: i' => if byte_eqb a b then compare_tag t' i' else Some false
  end.

(* bytes::streaming::tag *)
Definition tag (t : list byte) (i : list byte) : pres (list byte) :=
  match compare_tag t i with
  | Some true => POk (firstn (length t) i) (skipn (length t) i)
  | None => PIncomplete (needed_new (len t - len i))
  | Some false => PError
  end.

(* number::streaming::{be,le}_u{8,16,32,64,128} — k bytes *)
Definition uint (e : endian) (k : nat) (i : list byte) : pres N :=
  if len i <? N.of_nat k then PIncomplete (needed_new (N.of_nat k - len i))
  else POk (get_uint e (firstn k i)) (skipn k i).
Definition sint (e : endian) (k : nat) (i : list byte) : pres Z :=
  pmap (to_signed (8 * N.of_nat k)) (uint e k i).
Definition u8 (i : list byte) : pres N := uint BE 1 i.

(* number::complete::be_u8 — Error(Eof) instead of Incomplete *)
Definition u8_complete (i : list byte) : pres N :=
  match i with
  | [] => PError
  | b :: r => POk (b2n b) r
  end.

(* position of the first byte satisfying p *)
Fixpoint position (p : byte -> bool) (i : list byte) : option nat :=
  match i with
  | [] => None
  | b :: r => if p b then Some O else option_map S (position p r)
  end.

(* bytes::streaming::take_while_m_n(0, n, |c| c != 0) *)
Definition take_while_0_n_not_nul (n : N) (i : list byte) : pres (list byte) :=
  match position is_nul i with
  | Some idx =>
    let k := if N.of_nat idx <=? n then idx else N.to_nat n in
    POk (firstn k i) (skipn k i)
  | None =>
    if n <=? len i then POk (firstn (N.to_nat n) i) (skipn (N.to_nat n) i)
    else PIncomplete (needed_new 1)
  end.

(* multi::count: Error stays Error (append keeps the inner error), others pass through *)
Fixpoint count {A} (f : list byte -> pres A) (n : nat) (i : list byte) : pres (list A) :=
  match n with
  | O => POk [] i
  | S n' =>
    let* (a, r) := f i in
    let* (l, r') := count f n' r in
    POk (a :: l) r'
  end.

Definition is_ok {A} (x : pres A) : bool := match x with POk _ _ => true | _ => false end.
Definition is_ppanic {A} (x : pres A) : bool := match x with PPanic => true | _ => false end.
