(* Stream.v — the async message reader (src/stream.rs) over futures::io::BufReader
   (futures-util 0.3.34, io/buf_reader.rs, io/read_exact.rs), with the async source modelled as a
   stream plus a poll schedule.  Definitions only; lemmas are in Proofs/StreamProofs.v.

   stream.rs:84-109 is read.rs:84-108 up to `.await` (including the pending repair), so the message
   logic is Reader.next_message_slice_with instantiated with the async read_exact below.

   An `.await` inside an `async fn` polls the inner future each time the outer future is polled and
   passes Pending through unchanged; all locals of the async fn, the ReadExact future (its remaining
   destination slice) and the BufReader survive in the state machine.  Awaiting a future under an
   executor is therefore: poll it until it is Ready ([rx_await]). *)
From DltV.Model Require Import Bytes Nom Dlt Parse Reader.
Open Scope N_scope.

Inductive poll (A : Type) := Pending | Ready (a : A).
Arguments Pending {A}.
Arguments Ready {A} a.

(* ---------- the async source ----------
   [source] is reused: the schedule is now a poll schedule.  Each `poll_read(cx, buf)` consumes one entry:
     0      Poll::Pending, nothing consumed (the waker fires, the executor polls again)
     k > 0  Poll::Ready(Ok(min(k, |buf|, remaining)))
   exhausted schedule: Poll::Ready(Ok(min(|buf|, remaining))).  The source never fails. *)
Definition asrc_poll_read (want : N) (s : source) : poll (list byte) * source :=
  let rest := src_rest s in
  match src_sched s with
  | [] => (Ready (takeN want rest), mkSrc [] (dropN want rest))
  | k :: pi =>
    if k =? 0 then (Pending, mkSrc pi rest)
    else
      let n := N.min k want in
      (Ready (takeN n rest), mkSrc pi (dropN n rest))
  end.

(* ---------- futures::io::BufReader ([bufreader] is reused: buffer[pos..cap] and the source) ---------- *)

(* poll_fill_buf (buf_reader.rs:149-162): true = Ready(Ok(buffer)), false = Pending *)
Definition abr_poll_fill_buf (cap : N) (br : bufreader) : bool * bufreader :=
  if is_nil (br_buf br) then
    match asrc_poll_read cap (br_src br) with
    | (Ready bs, s') => (true, mkBR bs s')
    | (Pending, s') => (false, mkBR [] s')
    end
  else (true, br).

(* poll_read (buf_reader.rs:110-127) *)
Definition abr_poll_read (cap : N) (want : N) (br : bufreader) : poll (list byte) * bufreader :=
  if is_nil (br_buf br) && (cap <=? want) then
    (* bypass: ready!(inner.poll_read(cx, buf)); discard_buffer() *)
    let '(r, s') := asrc_poll_read want (br_src br) in (r, mkBR [] s')
  else
    match abr_poll_fill_buf cap br with
    | (false, br') => (Pending, br')
    | (true, br') =>
      (Ready (takeN want (br_buf br')), mkBR (dropN want (br_buf br')) (br_src br'))
    end.

(* ---------- the ReadExact future (read_exact.rs) ----------
   state: [want] = |this.buf| still to fill, [got] = bytes written so far.  No retry on Interrupted:
   `?` returns any error; our source has none. *)
Inductive rx_poll_res := RxPending | RxReady (x : xres).

(* one call of <ReadExact as Future>::poll; the while loop delivers >= 1 byte per iteration or returns *)
Fixpoint rx_poll (fuel : nat) (cap : N) (want : N) (got : list byte) (br : bufreader)
  : rx_poll_res * (N * list byte) * bufreader :=
  if want =? 0 then (RxReady XOk, (want, got), br)
  else
    match fuel with
    | O => (RxReady XFuel, (want, got), br)
    | S fuel' =>
      match abr_poll_read cap want br with
      | (Pending, br') => (RxPending, (want, got), br')                 (* ready! *)
      | (Ready [], br') => (RxReady XEof, (want, got), br')             (* n == 0 => UnexpectedEof *)
      | (Ready bs, br') => rx_poll fuel' cap (want - len bs) (got ++ bs) br'
      end
    end.

Definition rx_poll_fuel (want : N) (br : bufreader) : nat :=
  length (takeN want (br_buf br)) + length (takeN want (src_rest (br_src br))) + 1.

(* `.await`: poll until Ready.  Every Pending consumes a schedule entry. *)
Fixpoint rx_await (fuel : nat) (cap : N) (want : N) (got : list byte) (br : bufreader)
  : xres * list byte * bufreader :=
  match fuel with
  | O => (XFuel, got, br)
  | S fuel' =>
    match rx_poll (rx_poll_fuel want br) cap want got br with
    | (RxPending, (want', got'), br') => rx_await fuel' cap want' got' br'
    | (RxReady x, (_, got'), br') => (x, got', br')
    end
  end.

(* AsyncReadExt::read_exact(&mut buf).await *)
Definition abr_read_exact (cap : N) (want : N) (br : bufreader) : xres * list byte * bufreader :=
  rx_await (length (br_sched br) + 1) cap want [] br.

(* ---------- DltStreamReader / stream::read_message ---------- *)
Definition async_next_message_slice (cap : N) := next_message_slice_with (abr_read_exact cap) true.
Definition async_read_message (cap : N) := read_message_with (abr_read_exact cap) true.

Definition async_run (fuel : nat) (pi : list N) (s : list byte) (f : option processed_filter) (with_sh : bool)
  : list outcome * bool :=
  run_with (abr_read_exact default_cap) true fuel f with_sh (new_reader pi s).

Definition async_run_default (pi : list N) (s : list byte) (f : option processed_filter) (with_sh : bool)
  : list outcome * bool :=
  async_run (length s + 1) pi s f with_sh.

Definition async_run_cap (cap : N) (pi : list N) (s : list byte) (f : option processed_filter) (with_sh : bool)
  : list outcome * bool :=
  run_with (abr_read_exact cap) true (length s + 1) f with_sh (new_reader pi s).

(* the pre-repair async reader *)
Section Pinned.
  Definition async_next_message_slice_pinned (cap : N) := next_message_slice_with (abr_read_exact cap) false.
  Definition async_run_pinned (pi : list N) (s : list byte) (f : option processed_filter) (with_sh : bool)
    : list outcome * bool :=
    run_with (abr_read_exact default_cap) false (length s + 1) f with_sh (new_reader pi s).
End Pinned.
