(* FibexWire.v — token readers/writers that let the harness drive the FIBEX model:
   the harness runs quick-xml over the files, encodes the events it saw, and compares the
   crate's `gather_fibex_data` / `extract_metadata` results with [op_fibex] / [op_fibex_lookup]. *)
From DltV.Model Require Import Bytes RustInt Dlt Wire Fibex.
Open Scope N_scope.

(* ---------- readers ---------- *)
Definition r_xattr : rd xattr :=
  rlet k := r_n in
  match k with
  | 0 => rret AttrErr
  | 1 => rlet key := r_bytes in rlet v := r_opt r_bytes in rret (Attr key v)
  | _ => rfail
  end.

Definition r_xevent : rd xevent :=
  rlet k := r_n in
  match k with
  | 1 => rlet name := r_bytes in rlet attrs := r_list r_xattr in rret (XStart name attrs)
  | 2 => rlet name := r_bytes in rlet attrs := r_list r_xattr in rret (XEmpty name attrs)
  | 3 => rlet name := r_bytes in rret (XEnd name)
  | 4 => rlet t := r_opt r_bytes in rret (XText t)
  | 5 => rret XOther
  | 6 => rret XErr
  | _ => rfail
  end.

Definition r_xfile : rd xfile :=
  rlet k := r_n in
  match k with
  | 0 => rret FileMissing
  | 1 => rlet evs := r_list r_xevent in rret (FileEvents evs)
  | _ => rfail
  end.

(* ---------- canonical order of the two maps ---------- *)
Fixpoint bytes_cmp (a b : bstr) : comparison :=
  match a, b with
  | [], [] => Eq
  | [], _ :: _ => Lt
  | _ :: _, [] => Gt
  | x :: a', y :: b' =>
    match b2n x ?= b2n y with
    | Eq => bytes_cmp a' b'
    | c => c
    end
  end.
Definition frame_key_cmp (a b : frame_key) : comparison :=
  let '(c1, a1, f1) := a in let '(c2, a2, f2) := b in
  match bytes_cmp c1 c2 with
  | Eq => match bytes_cmp a1 a2 with
          | Eq => bytes_cmp f1 f2
          | c => c
          end
  | c => c
  end.
Definition cmp_leb (c : comparison) : bool := match c with Gt => false | _ => true end.

Fixpoint insert_sorted {K V} (cmp : K -> K -> comparison) (x : K * V) (l : list (K * V)) : list (K * V) :=
  match l with
  | [] => [x]
  | y :: t => if cmp_leb (cmp (fst x) (fst y)) then x :: y :: t else y :: insert_sorted cmp x t
  end.
Fixpoint sort_entries {K V} (cmp : K -> K -> comparison) (l : list (K * V)) : list (K * V) :=
  match l with
  | [] => []
  | x :: t => insert_sorted cmp x (sort_entries cmp t)
  end.

(* ---------- writers ---------- *)
Definition w_pdu (p : pdu_metadata) : list wtok :=
  w_opt w_bytes (pdu_description p) ++ w_list w_ti (pdu_signal_types p).
Definition w_frame (f : frame_metadata) : list wtok :=
  [WB (fm_short_name f)]
  ++ w_opt w_bytes (fm_application_id f) ++ w_opt w_bytes (fm_context_id f)
  ++ w_opt w_bytes (fm_message_type f) ++ w_opt w_bytes (fm_message_info f)
  ++ w_list w_pdu (fm_pdus f).
Definition w_frame_entry (e : bstr * frame_metadata) : list wtok :=
  WB (fst e) :: w_frame (snd e).
Definition w_keyed_entry (e : frame_key * frame_metadata) : list wtok :=
  let '(c, a, f) := fst e in [WB c; WB a; WB f] ++ w_frame (snd e).
Definition w_metadata (m : fibex_metadata) : list wtok :=
  w_list w_frame_entry (sort_entries bytes_cmp (frame_map m))
  ++ w_list w_keyed_entry (sort_entries frame_key_cmp (frame_map_with_key m)).

Definition w_load_result (x : load_result) : list wtok :=
  match x with
  | Refused => [WN 0]
  | Loaded m => WN 1 :: w_metadata m
  | LoadPanic => [WN 2]
  | OutOfFuel => [WN 3]
  end.

(* ---------- operations ---------- *)
(* gather_fibex_data on the given files *)
Definition op_fibex (ts : list wtok) : list wtok :=
  run_rd (r_list r_xfile) ts (fun files => w_load_result (load files)).

(* gather_fibex_data, then extract_metadata(model, id, extended header with these ids) *)
Definition lookup_header (ids : bstr * bstr) : ext_header :=
  mkExt false 0 (MLog Info) (snd ids) (fst ids).             (* (context_id, app_id) *)
Definition op_fibex_lookup (ts : list wtok) : list wtok :=
  run_rd (rlet files := r_list r_xfile in
          rlet id := r_n in
          rlet eh := r_opt (rlet c := r_bytes in rlet a := r_bytes in rret (c, a)) in
          rret (files, id, eh)) ts
    (fun '(files, id, eh) =>
       match gather_fibex_data files with
       | None => [WN 0]
       | Some m =>
         match extract_metadata m id (option_map lookup_header eh) with
         | None => [WN 1; WN 0]
         | Some f => WN 1 :: WN 1 :: w_frame f
         end
       end).
