(* FibexWire.v — token readers/writers that let the harness drive the FIBEX model:
   the harness runs quick-xml over the files, encodes the events it saw, and compares the
   crate's `gather_fibex_data` / `extract_metadata` results with [op_fibex] / [op_fibex_lookup]. *)
From DltV.Model Require Import Bytes RustInt Dlt Wire Fibex.
From DltV.Spec Require Import FibexSpec.
Open Scope N_scope.

(* ---------- readers ---------- *)
Definition r_xattr : rd xattr :=
  rlet k := r_n in
  match k with
  | 0 => rret AttrErr
  | 1 => rlet key := r_bytes in rlet v := r_opt r_bytes in rret (Attr key v)
  | _ => rfail
  end.

Definition r_xevent : rd xevent :=
  rlet k := r_n in
  match k with
  | 1 => rlet name := r_bytes in rlet attrs := r_list r_xattr in rret (XStart name attrs)
  | 2 => rlet name := r_bytes in rlet attrs := r_list r_xattr in rret (XEmpty name attrs)
  | 3 => rlet name := r_bytes in rret (XEnd name)
  | 4 => rlet t := r_opt r_bytes in rret (XText t)
  | 5 => rret XOther
  | 6 => rret XErr
  | _ => rfail
  end.

(* a file of a case: 0 = missing | 1, the XML text (used by the implementation side only), its events *)
Definition r_xfile : rd xfile :=
  rlet k := r_n in
  match k with
  | 0 => rret FileMissing
  | 1 => rlet _xml := r_bytes in rlet evs := r_list r_xevent in rret (FileEvents evs)
  | _ => rfail
  end.

(* the abstract elements of Spec/FibexSpec.v *)
Definition r_instance : rd (N * bstr) := rlet s := r_n in rlet r := r_bytes in rret (s, r).
Definition r_element : rd element :=
  rlet k := r_n in
  match k with
  | 0 => rlet id := r_bytes in rlet sn := r_bytes in rlet d := r_opt r_bytes in rlet bl := r_n in
         rlet sigs := r_list r_instance in rret (ElPdu (mkAPdu id sn d bl sigs))
  | 1 => rlet id := r_bytes in rlet sn := r_bytes in rlet bl := r_n in
         rlet app := r_opt r_bytes in rlet ctx := r_opt r_bytes in
         rlet mt := r_opt r_bytes in rlet mi := r_opt r_bytes in
         rlet pdus := r_list r_instance in rret (ElFrame (mkAFrame id sn bl app ctx mt mi pdus))
  | 2 => rlet id := r_bytes in rlet c := r_bytes in rret (ElSignal id c)
  | 3 => rlet id := r_bytes in rlet b := r_bytes in rret (ElCoding id b)
  | _ => rfail
  end.
Definition r_layout : rd layout := r_list (r_list r_element).

(* files, style (0 = rendered exactly in the canonical event shape, 1 = a document with wrappers and
   white space), optional abstract layout *)
Definition r_fibex_case : rd (list xfile * N * option layout) :=
  rlet files := r_list r_xfile in rlet style := r_n in rlet l := r_opt r_layout in rret (files, style, l).

(* ---------- equality of event lists (is the file what Spec.files_of renders?) ---------- *)
Definition opt_bytes_eqb (a b : option bstr) : bool :=
  match a, b with
  | Some x, Some y => bytes_eqb x y
  | None, None => true
  | _, _ => false
  end.
Definition xattr_eqb (a b : xattr) : bool :=
  match a, b with
  | AttrErr, AttrErr => true
  | Attr k v, Attr k' v' => bytes_eqb k k' && opt_bytes_eqb v v'
  | _, _ => false
  end.
Fixpoint list_eqb {A} (eqb : A -> A -> bool) (a b : list A) : bool :=
  match a, b with
  | [], [] => true
  | x :: a', y :: b' => eqb x y && list_eqb eqb a' b'
  | _, _ => false
  end.
Definition xevent_eqb (a b : xevent) : bool :=
  match a, b with
  | XStart n l, XStart n' l' => bytes_eqb n n' && list_eqb xattr_eqb l l'
  | XEmpty n l, XEmpty n' l' => bytes_eqb n n' && list_eqb xattr_eqb l l'
  | XEnd n, XEnd n' => bytes_eqb n n'
  | XText t, XText t' => opt_bytes_eqb t t'
  | XOther, XOther => true
  | XErr, XErr => true
  | _, _ => false
  end.
Definition xfile_eqb (a b : xfile) : bool :=
  match a, b with
  | FileMissing, FileMissing => true
  | FileEvents x, FileEvents y => list_eqb xevent_eqb x y
  | _, _ => false
  end.

(* ---------- canonical order of the two maps ---------- *)
Fixpoint bytes_cmp (a b : bstr) : comparison :=
  match a, b with
  | [], [] => Eq
  | [], _ :: _ => Lt
  | _ :: _, [] => Gt
  | x :: a', y :: b' =>
    match b2n x ?= b2n y with
    | Eq => bytes_cmp a' b'
    | c => c
    end
  end.
Definition frame_key_cmp (a b : frame_key) : comparison :=
  let '(c1, a1, f1) := a in let '(c2, a2, f2) := b in
  match bytes_cmp c1 c2 with
  | Eq => match bytes_cmp a1 a2 with
          | Eq => bytes_cmp f1 f2
          | c => c
          end
  | c => c
  end.
Definition cmp_leb (c : comparison) : bool := match c with Gt => false | _ => true end.

Fixpoint insert_sorted {K V} (cmp : K -> K -> comparison) (x : K * V) (l : list (K * V)) : list (K * V) :=
  match l with
  | [] => [x]
  | y :: t => if cmp_leb (cmp (fst x) (fst y)) then x :: y :: t else y :: insert_sorted cmp x t
  end.
Fixpoint sort_entries {K V} (cmp : K -> K -> comparison) (l : list (K * V)) : list (K * V) :=
  match l with
  | [] => []
  | x :: t => insert_sorted cmp x (sort_entries cmp t)
  end.

(* ---------- writers ---------- *)
Definition w_pdu (p : pdu_metadata) : list wtok :=
  w_opt w_bytes (pdu_description p) ++ w_list w_ti (pdu_signal_types p).
Definition w_frame (f : frame_metadata) : list wtok :=
  [WB (fm_short_name f)]
  ++ w_opt w_bytes (fm_application_id f) ++ w_opt w_bytes (fm_context_id f)
  ++ w_opt w_bytes (fm_message_type f) ++ w_opt w_bytes (fm_message_info f)
  ++ w_list w_pdu (fm_pdus f).
Definition w_frame_entry (e : bstr * frame_metadata) : list wtok :=
  WB (fst e) :: w_frame (snd e).
Definition w_keyed_entry (e : frame_key * frame_metadata) : list wtok :=
  let '(c, a, f) := fst e in [WB c; WB a; WB f] ++ w_frame (snd e).
Definition w_metadata (m : fibex_metadata) : list wtok :=
  w_list w_frame_entry (sort_entries bytes_cmp (frame_map m))
  ++ w_list w_keyed_entry (sort_entries frame_key_cmp (frame_map_with_key m)).

Definition w_load_result (x : load_result) : list wtok :=
  match x with
  | Refused => [WN 0]
  | Loaded m => WN 1 :: w_metadata m
  | LoadPanic => [WN 2]
  | OutOfFuel => [WN 3]
  end.

(* [denote] lists ALL definitions in order and is read with first-match lookups; for printing keep the
   entry a lookup finds (the first of each key) *)
Fixpoint first_wins {K V} (eqb : K -> K -> bool) (seen : list K) (l : list (K * V)) : list (K * V) :=
  match l with
  | [] => []
  | x :: t =>
    if existsb (eqb (fst x)) seen then first_wins eqb seen t
    else x :: first_wins eqb (fst x :: seen) t
  end.
Definition canon_metadata (m : fibex_metadata) : fibex_metadata :=
  mkMeta (first_wins frame_key_eqb [] (frame_map_with_key m)) (first_wins bytes_eqb [] (frame_map m)).

(* ---------- operations ---------- *)
(* 50: gather_fibex_data on the given files; with a layout also: is the file list exactly the
   canonical rendering (style 0 only), and the meaning [denote] of the layout *)
Definition op_fibex (ts : list wtok) : list wtok :=
  run_rd r_fibex_case ts (fun '(files, style, lay) =>
    w_load_result (load files)
    ++ match lay with
       | None => [WN 0]
       | Some l =>
         WN 1 :: w_bool (if style =? 0 then list_eqb xfile_eqb files (files_of l) else true)
         ++ w_opt w_metadata (option_map canon_metadata (denote (concat l)))
       end).

(* 51: gather_fibex_data, then extract_metadata(model, id, extended header with these ids) *)
Definition lookup_header (ids : bstr * bstr) : ext_header :=
  mkExt false 0 (MLog Info) (snd ids) (fst ids).             (* (context_id, app_id) *)
Definition op_fibex_lookup (ts : list wtok) : list wtok :=
  run_rd (rlet c := r_fibex_case in
          rlet id := r_n in
          rlet eh := r_opt (rlet c := r_bytes in rlet a := r_bytes in rret (c, a)) in
          rret (c, id, eh)) ts
    (fun '((files, _, _), id, eh) =>
       match load files with
       | Loaded m =>
         match extract_metadata m id (option_map lookup_header eh) with
         | None => [WN 1; WN 0]
         | Some f => WN 1 :: WN 1 :: w_frame f
         end
       | Refused => [WN 0]
       | LoadPanic => [WN 2]
       | OutOfFuel => [WN 3]
       end).
