(* Float.v — the floating-point part of src/dlt.rs: Argument::value_as_f64 / log_v /
   to_real_value (dlt.rs:943-986), i.e.  log_v = phy_v * quantization + offset.

   Floats are the standard library's [SpecFloat.spec_float] (pure Gallina; no primitive
   floats, no axioms).  binary64 is [prec = 53], [emax = 1024].  What is modelled:

     f32 from its bit pattern            [f32_of_bits]   (sign / 8-bit exponent / 23-bit fraction)
     `x as f64` for x : f32              [f32_to_f64]    exact: the same number, renormalised to 53 bits
     `n as f64` for n : i8..i64,u8..u64  [int_to_f64]    round to nearest, ties to even ([binary_normalize])
     f64 * f64                           [f64_mul]       [SFmul 53 1024], round to nearest even
     `x as u64` for x : f64              [f64_to_u64]    truncation toward zero, saturating, NaN -> 0
     `v as u64` for v : i32 / i64        [Bytes.of_signed 64]   sign extension = residue mod 2^64
     u64 + u64                           [RustInt.add_chk 64] (overflow-checked build: panic) or
                                         [RustInt.wrap 64 (a + b)] (`wrapping_add`)

   NaN payloads are not represented in [spec_float]; they cannot be observed here (a NaN
   quantization gives a NaN product, and `NaN as u64` is 0).

   Two variants of the entry point:
     [to_real_value_pinned]  the code as it stands:  `(value * q as f64) as u64 + *v as u64`
                             with the `+` of a build with overflow checks (Panic on overflow);
     [to_real_value]         the repaired code:      `((..) as u64).wrapping_add( *v as u64 )`.
   Both return [chk (option N)]:  Val None | Val (Some n) | Panic. *)
From Coq Require Import ZArith NArith Floats.SpecFloat.
From DltV.Model Require Import Bytes RustInt Dlt.
Open Scope N_scope.

Definition prec64 : Z := 53.
Definition emax64 : Z := 1024.

(* ---------- f32 bit pattern -> number ---------- *)
(* bit 31 sign, bits 30..23 biased exponent E, bits 22..0 fraction F.
   E = 0: zero / subnormal F * 2^-149;  E = 255: infinity (F = 0) or NaN;
   otherwise (2^23 + F) * 2^(E - 150). *)
Definition f32_of_bits (b : N) : spec_float :=
  let s := N.testbit b 31 in
  let e := (b / 2 ^ 23) mod 2 ^ 8 in
  let f := b mod 2 ^ 23 in
  if e =? 0 then
    match f with 0 => S754_zero s | Npos p => S754_finite s p (-149) end
  else if e =? 255 then
    (if f =? 0 then S754_infinity s else S754_nan)
  else S754_finite s (N.succ_pos (f + 8388607)) (Z.of_N e - 150).

(* ---------- conversions to f64 ---------- *)
(* every f32 is an f64: same sign, same m * 2^e, mantissa shifted left to the binary64
   canonical form (no rounding happens: at most 24 significant bits, exponent >= -149) *)
Definition f32_to_f64 (x : spec_float) : spec_float :=
  match x with
  | S754_finite s m e => binary_round prec64 emax64 s m e
  | _ => x
  end.

(* integer -> f64, round to nearest even (exact below 2^53 in magnitude) *)
Definition int_to_f64 (z : Z) : spec_float := binary_normalize prec64 emax64 z 0 false.

Definition f64_mul (x y : spec_float) : spec_float := SFmul prec64 emax64 x y.

(* ---------- f64 -> u64 ---------- *)
(* the integer obtained by discarding the fractional part (toward zero), unbounded;
   none for NaN and the infinities.  For m > 0, [Z.shiftl m e] is m * 2^e if e >= 0 and
   floor (m / 2^-e) otherwise. *)
Definition sf_trunc (x : spec_float) : option Z :=
  match x with
  | S754_zero _ => Some 0%Z
  | S754_finite s m e => Some (cond_Zopp s (Z.shiftl (Zpos m) e))
  | S754_infinity _ | S754_nan => None
  end.

Definition u64_max : N := 18446744073709551615.

(* Rust `as u64` on a float: saturating; NaN -> 0 *)
Definition f64_to_u64 (x : spec_float) : N :=
  match sf_trunc x with
  | Some t =>
    if (t <? 0)%Z then 0
    else if (Z.of_N u64_max <? t)%Z then u64_max
    else Z.to_N t
  | None =>
    match x with
    | S754_infinity false => u64_max
    | _ => 0                            (* -inf, NaN *)
    end
  end.

(* ---------- Argument::value_as_f64 (dlt.rs:944-956) ---------- *)
(* exactly the eight variants I8..I64, U8..U64; U128/I128, Bool, F32/F64, strings and raw
   give None *)
Definition value_as_f64 (v : value) : option spec_float :=
  match v with
  | VI8 z | VI16 z | VI32 z | VI64 z => Some (int_to_f64 z)
  | VU8 n | VU16 n | VU32 n | VU64 n => Some (int_to_f64 (Z.of_N n))
  | _ => None
  end.

Definition fp_off (o : fp_value) : Z := match o with FI32 z | FI64 z => z end.

(* `quantization as f64` *)
Definition fp_quant_f64 (fp : fixed_point) : spec_float := f32_to_f64 (f32_of_bits (fp_quant fp)).

(* `(value * *quantization as f64) as u64` *)
Definition scaled_u64 (fp : fixed_point) (v : spec_float) : N :=
  f64_to_u64 (f64_mul v (fp_quant_f64 fp)).

(* `*v as u64` for v : i32 or i64 *)
Definition off_u64 (fp : fixed_point) : N := of_signed 64 (fp_off (fp_offset fp)).

(* ---------- Argument::log_v (dlt.rs:958-978) ---------- *)
(* repaired: wrapping_add *)
Definition log_v (a : argument) : chk (option N) :=
  match a_fp a with
  | Some fp =>
    match value_as_f64 (a_value a) with
    | Some v => Val (Some (wrap 64 (scaled_u64 fp v + off_u64 fp)))
    | None => Val None
    end
  | None => Val None
  end.

(* as it stands: `+` with overflow checks *)
Definition log_v_pinned (a : argument) : chk (option N) :=
  match a_fp a with
  | Some fp =>
    match value_as_f64 (a_value a) with
    | Some v => chk_bind (add_chk 64 (scaled_u64 fp v) (off_u64 fp)) (fun r => Val (Some r))
    | None => Val None
    end
  | None => Val None
  end.

(* ---------- Argument::to_real_value (dlt.rs:980-986) ---------- *)
Definition to_real_value (a : argument) : chk (option N) :=
  match ti_kind_of (a_ti a), a_fp a with
  | KSignedFixed _, Some _ => log_v a
  | KUnsignedFixed _, Some _ => log_v a
  | _, _ => Val None
  end.

Definition to_real_value_pinned (a : argument) : chk (option N) :=
  match ti_kind_of (a_ti a), a_fp a with
  | KSignedFixed _, Some _ => log_v_pinned a
  | KUnsignedFixed _, Some _ => log_v_pinned a
  | _, _ => Val None
  end.

(* the arguments on which the conversion yields a value: fixed-point kind, fixed-point
   data present, and one of the eight integer variants of at most 64 bits *)
Definition real_applicable (a : argument) : bool :=
  is_fixed_point (ti_kind_of (a_ti a)) &&
  match a_fp a with Some _ => true | None => false end &&
  match a_value a with
  | VI8 _ | VI16 _ | VI32 _ | VI64 _ | VU8 _ | VU16 _ | VU32 _ | VU64 _ => true
  | _ => false
  end.
