(* Run.v — the operations of the correspondence check: one [run_case] entry point. *)
From DltV.Model Require Import Bytes RustInt Utf8 Nom Dlt Parse Wire.
From DltV.Spec Require Import WellFormed.
From DltV.Spec Require Layout.
From DltV.Spec Require NonVerbose.
From DltV.Spec Require ReaderSpec.
From DltV.Model Require Import Stats Reader Stream Float FibexWire Scan.
Open Scope N_scope.

Definition w_cres (x : option (list argument)) : list wtok :=
  match x with Some args => WN 0 :: w_list w_arg args | None => [WN 1] end.

(* 13 CONSTRUCT on very long type lists (thousands of signals): [construct_arguments] mirrors the implementation's
   indexing into the payload (`data[offset..]`), which on lists costs a walk from the front for every field; beyond
   2000 types the run evaluates the field-by-field decoder of Spec/NonVerbose.v instead, which is the same function
   on every input (Properties/C13.v [c13_refines]; the equation for this very definition is
   Properties/C13b.v [c13b_run_shortcut]). *)
Definition construct_for_run (e : endian) (tys : list type_info) (d : list byte) : option (list argument) :=
  if 2000 <? len tys then NonVerbose.spec_construct e tys d else construct_arguments e tys d.

Definition op_parse (ts : list wtok) : list wtok :=
  run_rd (rlet sh := r_bool in rlet f := r_opt r_filter in rlet bs := r_bytes in rret (sh, f, bs)) ts
    (fun '(sh, f, bs) => w_pres w_parsed (dlt_message bs (option_map process_filter f) sh)).

Definition op_enc (ts : list wtok) : list wtok :=
  run_rd r_msg ts (fun m =>
    if message_bytes_overflows m then [WN 1]
    else [WN 0; WB (message_bytes m); WN (byte_len m)]).

Definition op_arg (ts : list wtok) : list wtok :=
  run_rd (rlet e := r_endian in rlet a := r_arg in rret (e, a)) ts (fun '(e, a) =>
    [WN (arg_len a)] ++ w_bool (arg_valid a) ++
    (if arg_bytes_overflows a then [WN 1] else [WN 0; WB (arg_bytes e a)])).

(* time argument of add_storage_header: 0 = not called, 1 t = called with Some t, 2 = called with None (the
   implementation reads the clock; the harness blanks the time it got before printing, so the model uses 0/0) *)
Definition r_tsmode : rd (option timestamp) :=
  rlet k := r_n in
  if k =? 0 then rret None
  else if k =? 1 then rlet t := r_ts in rret (Some t)
  else rret (Some (mkTS 0 0)).

Definition op_new (ts : list wtok) : list wtok :=
  run_rd (rlet c := r_cfg in rlet sh := r_opt r_sh in rlet ts := r_tsmode in rret (c, sh, ts)) ts
    (fun '(c, sh, t) =>
       let m := message_new c sh in
       let m := match t with Some t => add_storage_header m t | None => m end in
       w_msg m).


(* ---- compound operations ---- *)
Definition has_storage (m : message) : bool := match m_storage m with Some _ => true | None => false end.

(* 20 RT: serialise, append a suffix, parse *)
Definition op_rt (ts : list wtok) : list wtok :=
  run_rd (rlet m := r_msg in rlet suffix := r_bytes in rret (m, suffix)) ts (fun '(m, suffix) =>
    w_bool (wf_message m) ++
    if message_bytes_overflows m then [WN 1]
    else WN 0 :: WB (message_bytes m) ::
         w_pres w_parsed (dlt_message (message_bytes m ++ suffix) None (has_storage m))).

(* 34 BIGREST: the message followed by n zero bytes, n up to beyond 2^32.  The model does not build the
   buffer: by c01_roundtrip the result on a well-formed message is the message and exactly the bytes
   that followed, whatever they are, so the model parses the message alone and reports n as remainder
   (messages that are not well-formed are skipped on both sides). *)
Definition op_bigrest (ts : list wtok) : list wtok :=
  run_rd (rlet m := r_msg in rlet n := r_n in rret (m, n)) ts (fun '(m, n) =>
    w_bool (wf_message m) ++
    if negb (wf_message m) then []
    else if message_bytes_overflows m then [WN 1]
    else WN 0 ::
         match dlt_message (message_bytes m) None (has_storage m) with
         | POk pm rest => WN 0 :: w_parsed pm ++ [WN (len rest + n)]
         | x => w_pres w_parsed x
         end).

(* 35 BIGJUNK: n filler bytes (one repeated value), a storage-header message, a suffix.  The model does not build
   the junk: a constant string contains no DLT\x01 (its four bytes differ), so by c06_search the search reports n
   and by c06_junk parsing gives what parsing message ++ suffix gives. *)
Definition op_bigjunk (ts : list wtok) : list wtok :=
  run_rd (rlet n := r_n in rlet fill := r_n in rlet m := r_msg in rlet suffix := r_bytes in rret (n, fill, m, suffix)) ts
    (fun '(n, _, m, suffix) =>
    let wf := wf_message m && has_storage m in
    w_bool wf ++
    if negb wf then []
    else if message_bytes_overflows m then [WN 1]
    else
      let x := message_bytes m ++ suffix in
      WN 0 :: [WN 1; WN n; WN (len x)] ++ w_pres w_parsed (dlt_message x None true)).

(* 36 JUNKCUT: junk ++ the first k bytes of a storage-header message *)
Definition op_junkcut (ts : list wtok) : list wtok :=
  run_rd (rlet j := r_bytes in rlet m := r_msg in rlet k := r_n in rret (j, m, k)) ts (fun '(j, m, k) =>
    let wf := wf_message m && has_storage m in
    w_bool wf ++
    if negb wf then []
    else if message_bytes_overflows m then [WN 1]
    else
      let bs := message_bytes m in
      let k' := N.min k (len bs - 1) in
      WN 0 :: w_pres w_parsed (dlt_message (j ++ firstn (N.to_nat k') bs) None true)).

(* 21 PARSE_USE: parse hostile bytes and use the result (C03) *)
Definition args_of (m : message) : list argument :=
  match m_payload m with PVerbose args => args | _ => [] end.
Definition op_parse_use (ts : list wtok) : list wtok :=
  run_rd (rlet sh := r_bool in rlet f := r_opt r_filter in rlet bs := r_bytes in rret (sh, f, bs)) ts
    (fun '(sh, f, bs) =>
       match dlt_message bs (option_map process_filter f) sh with
       | POk (Item m) _ =>
         [WN 0; WN (if message_bytes_overflows m then 1 else 0);
          WN (if forallb arg_valid (args_of m) then 1 else 0)]
       | POk (FilteredOut _) _ => [WN 1]
       | POk Invalid _ => [WN 2]
       | PIncomplete _ => [WN 3]
       | PError => [WN 4]
       | PFailure => [WN 5]
       | PPanic => [WN 9]
       end).

(* 23 PREFIX: verdict on every proper prefix of a message's bytes (C05) *)
Definition prefix_code {A} (x : pres A) : N :=
  match x with
  | PIncomplete None => 0
  | PIncomplete (Some n) => n
  | POk _ _ => 16777216
  | PError => 16777217
  | PFailure => 16777218
  | PPanic => 16777219
  end.
Definition op_prefix (ts : list wtok) : list wtok :=
  run_rd (rlet m := r_msg in rlet f := r_opt r_filter in rret (m, f)) ts (fun '(m, f) =>
    w_bool (wf_message m) ++
    if message_bytes_overflows m then [WN 1]
    else
      let bs := message_bytes m in
      let pf := option_map process_filter f in
      WN 0 :: WN (len bs) ::
      map (fun k => WN (prefix_code (dlt_message (firstn k bs) pf (has_storage m)))) (seq 0 (length bs))
      ++ (if has_storage m
          then map (fun k => WN (match dlt_consume_msg (firstn k bs) with
                                 | POk None _ => 16777220
                                 | x => prefix_code x end)) (seq 0 (length bs))
          else [])).

(* 31 PREFIX_AT: the verdicts at selected cut positions (boundary-size messages) *)
Definition op_prefix_at (ts : list wtok) : list wtok :=
  run_rd (rlet m := r_msg in rlet f := r_opt r_filter in rlet cuts := r_list r_n in rret (m, f, cuts)) ts
    (fun '(m, f, cuts) =>
    w_bool (wf_message m) ++
    if message_bytes_overflows m then [WN 1]
    else
      let bs := message_bytes m in
      let pf := option_map process_filter f in
      let ks := map N.to_nat (filter (fun k => k <? len bs) cuts) in
      WN 0 :: WN (len bs) ::
      map (fun k => WN (prefix_code (dlt_message (firstn k bs) pf (has_storage m)))) ks
      ++ (if has_storage m
          then map (fun k => WN (match dlt_consume_msg (firstn k bs) with
                                 | POk None _ => 16777220
                                 | x => prefix_code x end)) ks
          else [])).

(* 24 JUNK: junk ++ message ++ rest versus message ++ rest, with storage headers (C06) *)
Definition op_junk (ts : list wtok) : list wtok :=
  run_rd (rlet j := r_bytes in rlet m := r_msg in rlet rest := r_bytes in rlet f := r_opt r_filter in rret (j, m, rest, f)) ts
    (fun '(j, m, rest, f) =>
       w_bool (wf_message m) ++
       if message_bytes_overflows m then [WN 1]
       else
         let pf := option_map process_filter f in
         WN 0 :: w_pres w_parsed (dlt_message (j ++ message_bytes m ++ rest) pf true)
         ++ w_pres w_parsed (dlt_message (message_bytes m ++ rest) pf true)).

(* 25 PARSEALL: repeated parsing of a buffer until the first non-Ok *)
Definition op_parse_all (ts : list wtok) : list wtok :=
  run_rd (rlet sh := r_bool in rlet f := r_opt r_filter in rlet bs := r_bytes in rret (sh, f, bs)) ts
    (fun '(sh, f, bs) =>
       let '(l, r) := parse_all (S (length bs)) bs (option_map process_filter f) sh in
       w_list w_parsed l ++ [WN (len r)]).

(* 26 FILT: serialise, append suffix, parse with a filter (C09) *)
Definition op_filt (ts : list wtok) : list wtok :=
  run_rd (rlet m := r_msg in rlet f := r_filter in rlet suffix := r_bytes in rret (m, f, suffix)) ts
    (fun '(m, f, suffix) =>
       w_bool (wf_message m) ++
       if message_bytes_overflows m then [WN 1]
       else WN 0 :: w_pres w_parsed (dlt_message (message_bytes m ++ suffix) (Some (process_filter f)) (has_storage m))).

(* 30 FILT_HAND: like 26 with the processed minimum level set by hand (the way to an Invalid minimum) *)
Definition op_filt_hand (ts : list wtok) : list wtok :=
  run_rd (rlet m := r_msg in rlet f := r_filter in rlet lvl := r_opt r_log_level in rlet suffix := r_bytes in
          rret (m, f, lvl, suffix)) ts
    (fun '(m, f, lvl, suffix) =>
       let p := process_filter f in
       let p' := mkPF lvl (pf_app_ids p) (pf_ecu_ids p) (pf_context_ids p) (pf_app_id_count p) (pf_context_id_count p) in
       w_bool (wf_message m) ++
       if message_bytes_overflows m then [WN 1]
       else WN 0 :: w_pres w_parsed (dlt_message (message_bytes m ++ suffix) (Some p') (has_storage m))).

(* 28 STABLE: parse bytes; re-serialise a returned message; parse again (C16) *)
Definition stable_of (sh : bool) (bs : list byte) : list wtok :=
    match dlt_message bs None sh with
    | POk (Item m) _ =>
      if message_bytes_overflows m then [WN 1; WN 1]
      else
        let bs2 := message_bytes m in
        let declared := (if sh then 16 else 0) + byte_len m in
        WN 1 :: WN 0 :: w_msg m ++ [WB bs2; WN declared] ++
        (if len bs2 =? declared then
           match dlt_message bs2 None sh with
           | POk (Item m2) rest2 =>
             [WN 0] ++ w_msg m2 ++ [WN (len rest2)] ++
             (if message_bytes_overflows m2 then [WN 1] else [WN 0; WB (message_bytes m2)])
           | x => w_pres w_parsed x
           end
         else [WN 7])
    | _ => [WN 0]
    end.
Definition op_stable (ts : list wtok) : list wtok :=
  run_rd (rlet sh := r_bool in rlet bs := r_bytes in rret (sh, bs)) ts (fun '(sh, bs) => stable_of sh bs).
(* 39 INPLACE: several inputs parsed one after the other; the implementation holds them, in turn, in ONE buffer
   (same address), as a receiver does that retries with more data.  Each result is a function of the bytes alone. *)
Definition op_inplace (ts : list wtok) : list wtok :=
  run_rd (rlet sh := r_bool in
          rlet l := r_list (rlet missing := r_n in rlet b := r_bytes in rret b) in rret (sh, l)) ts
    (fun '(sh, l) => flat_map (fun bs => w_pres w_parsed (dlt_message bs None sh)) l).

(* 38 NEW_THEN_STABLE: the implementation first builds a message from the configuration and drops it unwritten,
   then does what op 28 does on the bytes; nothing of the first step may show in the second (the model has no
   state, so it ignores the configuration) *)
Definition op_new_then_stable (ts : list wtok) : list wtok :=
  run_rd (rlet c := r_cfg in rlet s := r_opt r_sh in rlet sh := r_bool in rlet bs := r_bytes in rret (c, s, sh, bs)) ts
    (fun '(_, _, sh, bs) => stable_of sh bs).


(* 27 FILTERCFG: the processed configuration, sets in canonical (sorted) order *)
Fixpoint bytes_leb (a b : list byte) : bool :=
  match a, b with
  | [], _ => true
  | _ :: _, [] => false
  | x :: a', y :: b' => if b2n x <? b2n y then true else if b2n y <? b2n x then false else bytes_leb a' b'
  end.
Fixpoint insert_sorted (x : list byte) (l : list (list byte)) : list (list byte) :=
  match l with
  | [] => [x]
  | y :: r => if bytes_leb x y then x :: l else y :: insert_sorted x r
  end.
Definition sort_bytes (l : list (list byte)) : list (list byte) := fold_right insert_sorted [] l.
Definition w_processed (p : processed_filter) : list wtok :=
  w_opt w_log_level (pf_min_log_level p)
  ++ w_opt (fun s => w_list w_bytes (sort_bytes s)) (pf_app_ids p)
  ++ w_opt (fun s => w_list w_bytes (sort_bytes s)) (pf_ecu_ids p)
  ++ w_opt (fun s => w_list w_bytes (sort_bytes s)) (pf_context_ids p)
  ++ [WZ (pf_app_id_count p); WZ (pf_context_id_count p)].

(* 29 STREAMJ: junk0 ++ (message ++ junk)* parsed repeatedly with storage headers *)
Definition r_msg_junk : rd (message * list byte) := rlet m := r_msg in rlet j := r_bytes in rret (m, j).
Definition op_streamj (ts : list wtok) : list wtok :=
  run_rd (rlet j0 := r_bytes in rlet l := r_list r_msg_junk in rret (j0, l)) ts (fun '(j0, l) =>
    if existsb (fun mj => message_bytes_overflows (fst mj)) l then [WN 1]
    else
      let buf := j0 ++ flat_map (fun mj => message_bytes (fst mj) ++ snd mj) l in
      let '(res, r) := parse_all (S (length buf)) buf None true in
      WN 0 :: w_list w_parsed res ++ [WN (len r)]).


(* 32 STATS: parts of a message stream; visits, statistics of the whole, merged statistics of the parts *)
Definition w_stat (s : statistic) : list wtok :=
  w_opt w_log_level (st_level s) ++ w_opt w_bytes (st_ecu s)
  ++ w_opt (fun p => [WB (fst p); WB (snd p)]) (st_ext s) ++ w_bool (st_verbose s).
Definition w_ld (d : level_dist) : list wtok :=
  [WN (non_log d); WN (log_fatal d); WN (log_error d); WN (log_warning d);
   WN (log_info d); WN (log_debug d); WN (log_verbose d); WN (log_invalid d)].
Fixpoint insert_entry (x : list byte * level_dist) (l : idmap) : idmap :=
  match l with
  | [] => [x]
  | y :: r => if bytes_leb (fst x) (fst y) then x :: l else y :: insert_entry x r
  end.
Definition sort_idmap (m : idmap) : idmap := fold_right insert_entry [] m.
Definition w_idmap (m : idmap) : list wtok :=
  w_list (fun e => WB (fst e) :: w_ld (snd e)) (sort_idmap m).
Definition w_si (si : stat_info) : list wtok :=
  w_idmap (si_app si) ++ w_idmap (si_ctx si) ++ w_idmap (si_ecu si) ++ w_bool (si_non_verbose si).
Fixpoint merge_balanced (fuel : nat) (l : list stat_info) : stat_info :=
  match fuel with
  | O => stat_info_new
  | S fuel' =>
    match l with
    | [] => stat_info_new
    | [x] => x
    | _ => let k := Nat.div2 (length l) in
           merge (merge_balanced fuel' (firstn k l)) (merge_balanced fuel' (skipn k l))
    end
  end.
Definition merge_mode (mode : N) (l : list stat_info) : stat_info :=
  match mode with
  | 0 => fold_left merge l stat_info_new
  | 1 => fold_left merge (rev l) stat_info_new
  | 2 => merge_balanced (S (length l)) l
  | _ => fold_right merge stat_info_new l
  end.
Definition op_stats (ts : list wtok) : list wtok :=
  run_rd (rlet mode := r_n in rlet parts := r_list (r_list r_msg) in rret (mode, parts)) ts
    (fun '(mode, parts) =>
       let all := concat parts in
       w_list w_stat (map statistic_of_message all)
       ++ w_si (collect_messages all)
       ++ w_si (merge_mode mode (map collect_messages parts))).

(* 40 READ / 41 ASYNC: the message readers over (stream, schedule) — C07, C08 *)
Definition w_perr (e : perr) : list wtok :=
  match e with
  | EIncomplete None => [WN 1; WN 0]
  | EIncomplete (Some n) => [WN 1; WN 1; WN n]
  | EHickup => [WN 2]
  | EUnrecoverable => [WN 3]
  end.
Definition w_outcome (o : outcome) : list wtok :=
  match o with
  | OMsg pm => WN 0 :: w_parsed pm
  | OErr e => WN 1 :: w_perr e
  | OPanic => [WN 9]
  end.
Definition cap_of (c : N) : N := if c =? 0 then default_cap else N.max c message_max_len.
Definition r_reader_case : rd (bool * option filter_config * N * N * list N * list byte) :=
  rlet sh := r_bool in rlet f := r_opt r_filter in rlet c := r_n in rlet mml := r_n in rlet sched := r_list r_n in
  rlet s := r_bytes in rret (sh, f, c, mml, sched, s).
(* DltMessageReader::with_capacity(cap, message_max_len, ..): the scratch buffer has message_max_len bytes
   (0 = the default 16 + 65535; the theorems of C07/C08 are about the default) *)
Definition reader_of (mml : N) (sigma : list N) (s : list byte) : reader bufreader :=
  if mml =? 0 then new_reader sigma s
  else mkReader (mkBR [] (mkSrc sigma s)) (repeat x00 (N.to_nat mml)).
Definition cap_mml (c mml : N) : N := if mml =? 0 then cap_of c else N.max (cap_of c) mml.
Definition op_read (ts : list wtok) : list wtok :=
  run_rd r_reader_case ts (fun '(sh, f, c, mml, sched, s) =>
    let '(l, fin) := run_with (br_read_exact (cap_mml c mml)) true (length s + 1) (option_map process_filter f) sh
                       (reader_of mml sched s) in
    w_list w_outcome l ++ w_bool fin).
Definition op_async (ts : list wtok) : list wtok :=
  run_rd r_reader_case ts (fun '(sh, f, c, mml, sched, s) =>
    let '(l, fin) := run_with (abr_read_exact (cap_mml c mml)) true (length s + 1) (option_map process_filter f) sh
                       (reader_of mml sched s) in
    w_list w_outcome l ++ w_bool fin).

(* 43 READ_BIG (blocking, async = 0 / 1): streams longer than the readers' 10 MiB BufReader, described compactly:
   nrec records of declared length l (header type 0x20, zero payload; with storage header when sh), then a tail.
   Walking the BufReader model over ten million list cells is not affordable; the run evaluates the specification
   [ReaderSpec.spec_run] instead, which IS what the reader model delivers for every capacity and schedule
   (Properties/C07.v c07_fragmentation_cap for the blocking reader; Properties/C08b.v c08b_default_corollary for
   the async one) - and that through [big_spec_run] below. *)
Definition big_record (sh : bool) (l : N) : list byte :=
  (if sh then [n2b 0x44; n2b 0x4c; n2b 0x54; n2b 0x01] ++ repeat x00 12 else [])
  ++ [n2b 0x20; x00; n2b (l / 256); n2b (l mod 256)] ++ repeat x00 (N.to_nat (l - 4)).
Definition big_stream (sh : bool) (nrec l : N) (tail : list byte) : list byte :=
  concat (repeat (big_record sh l) (N.to_nat nrec)) ++ tail.
(* what spec_run yields on such a stream, computed without walking it: the outcome of ONE record, nrec times, then
   the run of the tail (equation proved as Properties/C07b.v c07b_big_stream) *)
Definition big_spec_run (sh : bool) (nrec l : N) (tail : list byte) (f : option processed_filter) : list outcome :=
  let o := ReaderSpec.spec_outcome (dlt_message (big_record sh l) f sh) in
  if nrec =? 0 then ReaderSpec.spec_run tail f sh
  else match o with
       | OPanic => [OPanic]
       | _ => repeat o (N.to_nat nrec) ++ ReaderSpec.spec_run tail f sh
       end.
(* the same with one record of another length l1 in front (to place the long records at any offset):
   the stream is big_stream sh 1 l1 (big_stream sh nrec l tail); l1 = 0 means no such record
   (equation: Properties/C07b.v c07b_big_stream2) *)
Definition big_spec_run2 (sh : bool) (l1 nrec l : N) (tail : list byte) (f : option processed_filter) : list outcome :=
  if l1 =? 0 then big_spec_run sh nrec l tail f
  else match ReaderSpec.spec_outcome (dlt_message (big_record sh l1) f sh) with
       | OPanic => [OPanic]
       | o1 => o1 :: big_spec_run sh nrec l tail f
       end.
Definition op_read_big (ts : list wtok) : list wtok :=
  run_rd (rlet async := r_bool in rlet sh := r_bool in rlet f := r_opt r_filter in rlet c := r_n in
          rlet sched := r_list r_n in rlet l1 := r_n in rlet nrec := r_n in rlet l := r_n in rlet tail := r_bytes in
          rret (sh, f, l1, nrec, l, tail)) ts
    (fun '(sh, f, l1, nrec, l, tail) =>
       w_list w_outcome (big_spec_run2 sh l1 nrec l tail (option_map process_filter f)) ++ w_bool true).

(* 44 CONSTRUCT_BIG: the payload is data followed by n zero bytes, n up to beyond 2^32; data alone is complete for
   the types (the generator builds it so), hence by Properties/C13.v c13_trailing the result is that of data alone *)
Definition op_construct_big (ts : list wtok) : list wtok :=
  run_rd (rlet e := r_endian in rlet tys := r_list r_ti in rlet d := r_bytes in rlet n := r_n in rret (e, tys, d)) ts
    (fun '(e, tys, d) => w_cres (construct_for_run e tys d)).

(* 60 SPECDEC / 61 SPECENC: the independent reference codec of Spec/Layout.v (C02) *)
Definition w_verdict (v : Layout.verdict) : list wtok :=
  match v with
  | Layout.VMessage m c => WN 0 :: w_msg m ++ [WN c]
  | Layout.VIncomplete => [WN 1]
  | Layout.VReject => [WN 2]
  end.
Definition op_specdec (ts : list wtok) : list wtok :=
  run_rd (rlet sh := r_bool in rlet bs := r_bytes in rret (sh, bs)) ts
    (fun '(sh, bs) => w_verdict (Layout.spec_decode sh bs)).
Definition op_specenc (ts : list wtok) : list wtok :=
  run_rd r_msg ts (fun m =>
    w_bool (wf_message m) ++
    if message_bytes_overflows m then [WN 1]
    else [WN 0; WB (if wf_message m then Layout.spec_encode m else message_bytes m)]).

(* 33 SCAN: collect_statistics over the reader model on ARBITRARY byte streams (C10, error paths included) *)
Definition w_stat_full (s : statistic_full) : list wtok :=
  w_opt w_log_level (fs_level s) ++ w_opt w_sh (fs_storage s) ++ w_std (fs_std s)
  ++ w_opt w_ext (fs_ext s) ++ [WB (fs_payload s)] ++ w_bool (fs_verbose s).
Definition w_scan_end (e : scan_end) : list wtok :=
  match e with
  | ScanOk => [WN 0]
  | ScanErr x => WN 1 :: w_perr x
  | ScanPanic => [WN 9]
  | ScanFuel => [WN 8]
  end.
Definition op_scan (ts : list wtok) : list wtok :=
  run_rd (rlet sh := r_bool in rlet sched := r_list r_n in rlet s := r_bytes in rret (sh, sched, s)) ts
    (fun '(sh, sched, s) =>
       let '(l, e) := scan sched s sh in
       w_list w_stat_full l ++ w_scan_end e ++ w_si (fst (collect_statistics sched s sh))).

Definition run_case (op : N) (ts : list wtok) : list wtok :=
  match op with
  | 1 => run_rd r_n ts (fun ms => w_chk w_ts (from_ms ms))
  | 2 => run_rd r_n ts (fun us => w_chk w_ts (from_us us))
  (* 5 TS_CONCURRENT: the implementation converts the values on several threads at once; each result is the
     function of its input (the model has nothing shared to race on) *)
  | 5 => run_rd (rlet ms := r_bool in rlet l := r_list r_n in rret (ms, l)) ts
           (fun '(ms, l) => flat_map (fun v => w_chk w_ts (if ms then from_ms v else from_us v)) l)
  | 3 => run_rd (rlet n := r_n in rlet b := r_bytes in rret (n, b)) ts
           (fun '(n, b) => w_pres w_bytes (zstring n b))
  | 4 => run_rd r_n ts (fun w =>
           match ti_decode w with
           | Some t => WN 1 :: w_ti t ++ [WN (ti_encode t); WB (ti_bytes LE t); WB (ti_bytes BE t)]
           | None => [WN 0]
           end)
  | 7 => run_rd r_n ts (fun b =>
           let t := message_type_decode b in
           w_mtype t ++ w_bool (msin_verbose b) ++ [WN (msin_encode t (msin_verbose b))])
  | 8 => op_parse ts
  | 9 => op_enc ts
  | 10 => run_rd r_bytes ts (fun bs => w_pres (w_opt w_n) (dlt_consume_msg bs))
  | 11 => run_rd r_bytes ts (fun bs => w_pres w_n (skip_storage_header bs))
  | 12 => run_rd r_bytes ts (fun bs =>
            match forward_to_next_storage_header bs with
            | Some (k, r) => [WN 1; WN k; WN (len r)]
            | None => [WN 0]
            end)
  | 13 => run_rd (rlet e := r_endian in rlet tys := r_list r_ti in rlet d := r_bytes in rret (e, tys, d)) ts
            (fun '(e, tys, d) => w_cres (construct_for_run e tys d))
  | 14 => op_arg ts
  | 15 => op_new ts
  | 20 => op_rt ts
  | 21 => op_parse_use ts
  | 23 => op_prefix ts
  | 24 => op_junk ts
  | 25 => op_parse_all ts
  | 26 => op_filt ts
  | 27 => run_rd r_filter ts (fun f => w_processed (process_filter f))
  | 28 => op_stable ts
  | 38 => op_new_then_stable ts
  | 39 => op_inplace ts
  | 43 => op_read_big ts
  | 44 => op_construct_big ts
  | 30 => op_filt_hand ts
  | 31 => op_prefix_at ts
  | 29 => op_streamj ts
  | 32 => op_stats ts
  | 33 => op_scan ts
  | 34 => op_bigrest ts
  | 35 => op_bigjunk ts
  | 36 => op_junkcut ts
  | 40 => op_read ts
  | 41 => op_async ts
  | 42 => run_rd r_arg ts (fun a => w_chk (w_opt w_n) (to_real_value a))
  | 50 => op_fibex ts
  | 51 => op_fibex_lookup ts
  | 60 => op_specdec ts
  | 61 => op_specenc ts
  | _ => [WN 998]
  end.
