(* Run.v — the operations of the correspondence check: one [run_case] entry point. *)
From DltV.Model Require Import Bytes RustInt Utf8 Nom Dlt Parse Wire.
Open Scope N_scope.

Definition w_cres (x : option (list argument)) : list wtok :=
  match x with Some args => WN 0 :: w_list w_arg args | None => [WN 1] end.

Definition op_parse (ts : list wtok) : list wtok :=
  run_rd (rlet sh := r_bool in rlet f := r_opt r_filter in rlet bs := r_bytes in rret (sh, f, bs)) ts
    (fun '(sh, f, bs) => w_pres w_parsed (dlt_message bs (option_map process_filter f) sh)).

Definition op_enc (ts : list wtok) : list wtok :=
  run_rd r_msg ts (fun m =>
    if message_bytes_overflows m then [WN 1]
    else [WN 0; WB (message_bytes m); WN (byte_len m)]).

Definition op_arg (ts : list wtok) : list wtok :=
  run_rd (rlet e := r_endian in rlet a := r_arg in rret (e, a)) ts (fun '(e, a) =>
    [WN (arg_len a)] ++ w_bool (arg_valid a) ++
    (if arg_bytes_overflows a then [WN 1] else [WN 0; WB (arg_bytes e a)])).

Definition op_new (ts : list wtok) : list wtok :=
  run_rd (rlet c := r_cfg in rlet sh := r_opt r_sh in rlet ts := r_opt r_ts in rret (c, sh, ts)) ts
    (fun '(c, sh, t) =>
       let m := message_new c sh in
       let m := match t with Some t => add_storage_header m t | None => m end in
       w_msg m).

Definition run_case (op : N) (ts : list wtok) : list wtok :=
  match op with
  | 1 => run_rd r_n ts (fun ms => w_chk w_ts (from_ms ms))
  | 2 => run_rd r_n ts (fun us => w_chk w_ts (from_us us))
  | 3 => run_rd (rlet n := r_n in rlet b := r_bytes in rret (n, b)) ts
           (fun '(n, b) => w_pres w_bytes (zstring n b))
  | 4 => run_rd r_n ts (fun w =>
           match ti_decode w with
           | Some t => WN 1 :: w_ti t ++ [WN (ti_encode t); WB (ti_bytes LE t); WB (ti_bytes BE t)]
           | None => [WN 0]
           end)
  | 6 => run_rd r_bytes ts (fun bs =>
           match dlt_standard_header bs with
           | POk h rest => WN 0 :: w_std h ++ [WN (len rest); WN (header_type_byte h)]
           | x => w_pres w_std x
           end)
  | 7 => run_rd r_n ts (fun b =>
           let t := message_type_decode b in
           w_mtype t ++ w_bool (msin_verbose b) ++ [WN (msin_encode t (msin_verbose b))])
  | 8 => op_parse ts
  | 9 => op_enc ts
  | 10 => run_rd r_bytes ts (fun bs => w_pres (w_opt w_n) (dlt_consume_msg bs))
  | 11 => run_rd r_bytes ts (fun bs => w_pres w_n (skip_storage_header bs))
  | 12 => run_rd r_bytes ts (fun bs =>
            match forward_to_next_storage_header bs with
            | Some (k, r) => [WN 1; WN k; WN (len r)]
            | None => [WN 0]
            end)
  | 13 => run_rd (rlet e := r_endian in rlet tys := r_list r_ti in rlet d := r_bytes in rret (e, tys, d)) ts
            (fun '(e, tys, d) => w_cres (construct_arguments e tys d))
  | 14 => op_arg ts
  | 15 => op_new ts
  | _ => [WN 998]
  end.
