(* ReaderMmlSpec.v — what a message reader with a scratch buffer of [m] bytes delivers, said
   without any reader (companion of ReaderSpec.v, which is the case "m is large enough").

   Each call of next_message_slice indexes the scratch buffer up to a certain length — its NEED:
     hdr_len                      always (`&mut self.buffer[..header_len]`), also on the last call (end of stream)
                                  and when the LEN field is below 4 (error before the second slice is taken);
     storage_len + LEN            when LEN >= 4 (`&mut self.buffer[header_len..total_len]`) — the reader
                                  looks at LEN before it tries to read the body, so this holds for a
                                  trailing record that is cut off by the end of the stream as well.
   A call whose need exceeds m panics (debug_assert! in debug builds, the slice index in release builds). *)
From DltV.Model Require Import Bytes Nom Dlt Parse Reader.
From DltV.Spec Require Import ReaderSpec.
Open Scope N_scope.

(* ---------- the needs, call by call ---------- *)
Fixpoint spec_needs_fuel (fuel : nat) (s : list byte) (with_sh : bool) : list N :=
  match fuel with
  | O => []
  | S fuel' =>
    match spec_cut with_sh s with
    | CEnd => [hdr_len with_sh]
    | CShort => hdr_len with_sh :: spec_needs_fuel fuel' (skipn (N.to_nat (hdr_len with_sh)) s) with_sh
    | CTrunc => [storage_len with_sh + declared_len with_sh s]
    | CPiece n => n :: spec_needs_fuel fuel' (skipn (N.to_nat n) s) with_sh
    end
  end.
(* one entry per call of next_message_slice on the stream s (as long as dlt_message does not panic);
   depends on the bytes only *)
Definition spec_needs (s : list byte) (with_sh : bool) : list N :=
  spec_needs_fuel (length s + 1) s with_sh.

(* the side condition: every need is within the scratch *)
Definition fits_mml (mml : N) (s : list byte) (with_sh : bool) : bool :=
  forallb (fun t => t <=? mml) (spec_needs s with_sh).

(* index of the first entry above m *)
Fixpoint first_over (m : N) (l : list N) : option nat :=
  match l with
  | [] => None
  | t :: l' => if m <? t then Some O else option_map S (first_over m l')
  end.

(* ---------- the same, read off spec_cuts ----------
   needs = lengths of the complete pieces ++ [need of the last call];
   the last call sees what is left behind the last complete piece. *)
Definition cuts_total (cuts : list (N * N)) : N := fold_right (fun c a => snd c + a) 0 cuts.
Definition spec_rest (s : list byte) (with_sh : bool) : list byte :=
  skipn (N.to_nat (cuts_total (spec_cuts s with_sh))) s.
(* the declared total of a trailing record that is cut off by the end of the stream *)
Definition trailing_total (s : list byte) (with_sh : bool) : option N :=
  let r := spec_rest s with_sh in
  match spec_cut with_sh r with
  | CTrunc => Some (storage_len with_sh + declared_len with_sh r)
  | _ => None
  end.
Definition last_need (s : list byte) (with_sh : bool) : N :=
  match trailing_total s with_sh with Some t => t | None => hdr_len with_sh end.

(* ---------- the run with a scratch of m bytes ---------- *)
Fixpoint spec_run_mml_fuel (fuel : nat) (m : N) (s : list byte) (f : option processed_filter) (with_sh : bool)
  : list outcome :=
  match fuel with
  | O => []
  | S fuel' =>
    if m <? hdr_len with_sh then [OPanic]
    else
      match spec_cut with_sh s with
      | CEnd => []
      | CShort => OErr EHickup :: spec_run_mml_fuel fuel' m (skipn (N.to_nat (hdr_len with_sh)) s) f with_sh
      | CTrunc =>
        if m <? storage_len with_sh + declared_len with_sh s then [OPanic] else [OErr EUnrecoverable]
      | CPiece n =>
        if m <? n then [OPanic]
        else
          match spec_outcome (dlt_message (firstn (N.to_nat n) s) f with_sh) with
          | OPanic => [OPanic]
          | o => o :: spec_run_mml_fuel fuel' m (skipn (N.to_nat n) s) f with_sh
          end
      end
  end.
Definition spec_run_mml (m : N) (s : list byte) (f : option processed_filter) (with_sh : bool) : list outcome :=
  spec_run_mml_fuel (length s + 1) m s f with_sh.
