(* ScanSpec.v — what `collect_statistics` hands to the collector, said without any reader: cut the stream
   at the declared lengths (Spec/ReaderSpec.v [spec_cut]) and decode the headers of each piece, in order,
   until the stream ends or something fails.  Definitions only. *)
From DltV.Model Require Import Bytes Nom Dlt Parse Stats Reader Scan.
From DltV.Spec Require Import ReaderSpec.
Open Scope N_scope.

Fixpoint spec_scan_fuel (fuel : nat) (s : list byte) (with_sh : bool) : list statistic_full * scan_end :=
  match fuel with
  | O => ([], ScanFuel)
  | S fuel' =>
    match spec_cut with_sh s with
    | CEnd => ([], ScanOk)                         (* fewer than a header left: the scan is over *)
    | CShort => ([], ScanErr EHickup)              (* declared length below 4 *)
    | CTrunc => ([], ScanErr EUnrecoverable)       (* the declared message is longer than what is left *)
    | CPiece n =>
      match statistic_of_slice with_sh (firstn (N.to_nat n) s) with
      | POk st _ =>
        let '(l, e) := spec_scan_fuel fuel' (skipn (N.to_nat n) s) with_sh in (st :: l, e)
      | bad => ([], pres_end bad)
      end
    end
  end.

Definition spec_scan (s : list byte) (with_sh : bool) : list statistic_full * scan_end :=
  spec_scan_fuel (length s + 1) s with_sh.
