(* ReaderSpec.v — what a message reader delivers, said without any reader: cut the stream at the
   declared lengths.  Independent of Model/Reader.v except for the outcome type and [dlt_message]. *)
From DltV.Model Require Import Bytes Nom Dlt Parse Reader.
Open Scope N_scope.

Definition storage_len (with_sh : bool) : N := if with_sh then 16 else 0.
Definition hdr_len (with_sh : bool) : N := storage_len with_sh + 4.

(* big-endian u16 at offset storage_len + 2 (the LEN field of the standard header) *)
Definition declared_len (with_sh : bool) (s : list byte) : N :=
  match skipn (N.to_nat (storage_len with_sh + 2)) s with
  | a :: b :: _ => 256 * b2n a + b2n b
  | _ => 0
  end.

Definition spec_outcome (r : pres parsed_message) : outcome :=
  match r with
  | POk pm _ => OMsg pm
  | PIncomplete n => OErr (EIncomplete n)
  | PError => OErr EHickup
  | PFailure => OErr EUnrecoverable
  | PPanic => OPanic
  end.

(* one cut *)
Inductive cut :=
| CEnd                        (* fewer than hdr_len bytes left: end of stream *)
| CShort                      (* LEN < 4: an error, continue behind the hdr_len bytes *)
| CTrunc                      (* the declared message is longer than what is left: error, everything consumed *)
| CPiece (n : N).             (* a complete piece of n = storage_len + LEN bytes *)

Definition spec_cut (with_sh : bool) (s : list byte) : cut :=
  if len s <? hdr_len with_sh then CEnd
  else
    let L := declared_len with_sh s in
    if L <? 4 then CShort
    else if len s <? storage_len with_sh + L then CTrunc
    else CPiece (storage_len with_sh + L).

Fixpoint spec_run_fuel (fuel : nat) (s : list byte) (f : option processed_filter) (with_sh : bool)
  : list outcome :=
  match fuel with
  | O => []
  | S fuel' =>
    match spec_cut with_sh s with
    | CEnd => []
    | CShort => OErr EHickup :: spec_run_fuel fuel' (skipn (N.to_nat (hdr_len with_sh)) s) f with_sh
    | CTrunc => [OErr EUnrecoverable]
    | CPiece n =>
      match spec_outcome (dlt_message (firstn (N.to_nat n) s) f with_sh) with
      | OPanic => [OPanic]                                   (* a panic ends everything *)
      | o => o :: spec_run_fuel fuel' (skipn (N.to_nat n) s) f with_sh
      end
    end
  end.

(* every cut that continues removes at least 4 bytes *)
Definition spec_run (s : list byte) (f : option processed_filter) (with_sh : bool) : list outcome :=
  spec_run_fuel (length s + 1) s f with_sh.

(* the complete pieces as (offset, length) in the original stream; CShort pieces have length hdr_len.
   Depends on the bytes only (not on the filter, not on what dlt_message says). *)
Fixpoint spec_cuts_fuel (fuel : nat) (off : N) (s : list byte) (with_sh : bool) : list (N * N) :=
  match fuel with
  | O => []
  | S fuel' =>
    match spec_cut with_sh s with
    | CEnd | CTrunc => []
    | CShort =>
      (off, hdr_len with_sh)
        :: spec_cuts_fuel fuel' (off + hdr_len with_sh) (skipn (N.to_nat (hdr_len with_sh)) s) with_sh
    | CPiece n => (off, n) :: spec_cuts_fuel fuel' (off + n) (skipn (N.to_nat n) s) with_sh
    end
  end.
Definition spec_cuts (s : list byte) (with_sh : bool) : list (N * N) :=
  spec_cuts_fuel (length s + 1) 0 s with_sh.

(* the pieces that lie completely inside the first k bytes *)
Definition cut_within (k : N) (c : N * N) : bool := fst c + snd c <=? k.

(* the run, read off the pieces: every outcome but a final Unrecoverable error is a function of the
   bytes of one piece only *)
Definition piece_at (s : list byte) (c : N * N) : list byte :=
  firstn (N.to_nat (snd c)) (skipn (N.to_nat (fst c)) s).
Definition piece_outcome (f : option processed_filter) (with_sh : bool) (p : list byte) : outcome :=
  if declared_len with_sh p <? 4 then OErr EHickup else spec_outcome (dlt_message p f with_sh).
Fixpoint until_panic (l : list outcome) : list outcome :=
  match l with
  | [] => []
  | OPanic :: _ => [OPanic]
  | o :: r => o :: until_panic r
  end.

(* coarse view of an outcome, for examples and for the comparison with the Rust reader *)
Definition outcome_kind (o : outcome) : N :=
  match o with
  | OMsg _ => 0
  | OErr (EIncomplete _) => 1
  | OErr EHickup => 2
  | OErr EUnrecoverable => 3
  | OPanic => 4
  end.

(* example data for Properties/C07.v and C08.v: two non-verbose messages without extended header
   (HTYP 0x20, MCNT, LEN, message id, payload) and a storage header *)
Definition ex_m1 : list byte := [x20; x01; x00; x08; x01; x02; x03; x04].
Definition ex_m2 : list byte := [x20; x02; x00; x0a; x01; x02; x03; x04; xaa; xbb].
Definition ex_sh : list byte :=
  [x44; x4c; x54; x01; x00; x00; x00; x00; x00; x00; x00; x00; x45; x43; x55; x31].
Definition kinds (r : list outcome * bool) : list N * bool := (map outcome_kind (fst r), snd r).
