(* StatsSpec.v — independent specification of the standard statistics collector (C10).
   The tally is written by COUNTING over the list of per-message statistics
   (length of a filter), not by folding add_for_level / merge. *)
From DltV.Model Require Import Bytes Dlt Stats.
Open Scope N_scope.

(* ---------- the eight counters ---------- *)
Inductive bucket :=
| BNonLog | BFatal | BError | BWarning | BInfo | BDebug | BVerbose | BInvalid.

Definition all_buckets : list bucket :=
  [BNonLog; BFatal; BError; BWarning; BInfo; BDebug; BVerbose; BInvalid].

Definition bucket_eqb (a b : bucket) : bool :=
  match a, b with
  | BNonLog, BNonLog | BFatal, BFatal | BError, BError | BWarning, BWarning
  | BInfo, BInfo | BDebug, BDebug | BVerbose, BVerbose | BInvalid, BInvalid => true
  | _, _ => false
  end.

(* which counter a message belongs to: its log level, "invalid level", or "not a log message" *)
Definition bucket_of (level : option log_level) : bucket :=
  match level with
  | None => BNonLog
  | Some Fatal => BFatal
  | Some LError => BError
  | Some Warn => BWarning
  | Some Info => BInfo
  | Some Debug => BDebug
  | Some Verbose => BVerbose
  | Some (LInvalid _) => BInvalid
  end.

(* reading a counter of a LevelDistribution *)
Definition ld_get (b : bucket) (d : level_dist) : N :=
  match b with
  | BNonLog => non_log d | BFatal => log_fatal d | BError => log_error d
  | BWarning => log_warning d | BInfo => log_info d | BDebug => log_debug d
  | BVerbose => log_verbose d | BInvalid => log_invalid d
  end.

Definition ld_total (d : level_dist) : N :=
  non_log d + log_fatal d + log_error d + log_warning d
  + log_info d + log_debug d + log_verbose d + log_invalid d.

(* ---------- the three maps and the key a message contributes to each ---------- *)
Inductive key_kind := KEcu | KApp | KCtx.

Definition key_of (k : key_kind) (s : statistic) : option (list byte) :=
  match k with
  | KEcu => Some (match st_ecu s with Some id => id | None => [x4e; x4f; x4e; x45] (* "NONE" *) end)
  | KApp => match st_ext s with Some (apid, _) => Some apid | None => None end
  | KCtx => match st_ext s with Some (_, ctid) => Some ctid | None => None end
  end.

Definition has_key (k : key_kind) (id : list byte) (s : statistic) : bool :=
  match key_of k s with Some i => bytes_eqb i id | None => false end.

(* ---------- the tally ---------- *)
Definition count_where (p : statistic -> bool) (l : list statistic) : N :=
  N.of_nat (length (filter p l)).

(* number of statistics with key [id] (of kind k) that fall into bucket b *)
Definition tally_lookup (k : key_kind) (id : list byte) (b : bucket) (l : list statistic) : N :=
  count_where (fun s => has_key k id s && bucket_eqb (bucket_of (st_level s)) b) l.

(* some statistic has key [id] *)
Definition key_present (k : key_kind) (id : list byte) (l : list statistic) : bool :=
  existsb (has_key k id) l.

Definition non_verbose_spec (l : list statistic) : bool :=
  existsb (fun s => negb (st_verbose s)) l.

(* ---------- reading a result ---------- *)
Definition map_of (k : key_kind) (si : stat_info) : idmap :=
  match k with KEcu => si_ecu si | KApp => si_app si | KCtx => si_ctx si end.

Definition keys (m : idmap) : list (list byte) := map fst m.

Fixpoint lookup (m : idmap) (id : list byte) : option level_dist :=
  match m with
  | [] => None
  | (k, d) :: r => if bytes_eqb k id then Some d else lookup r id
  end.

(* sum of all eight counters over all entries *)
Fixpoint map_total (m : idmap) : N :=
  match m with
  | [] => 0
  | (_, d) :: r => ld_total d + map_total r
  end.

(* ---------- equality of results up to the (unspecified) entry order ---------- *)
Definition stat_wf (a : stat_info) : Prop := forall k, NoDup (keys (map_of k a)).

Definition stat_equiv (a b : stat_info) : Prop :=
  (forall k, NoDup (keys (map_of k a)) /\ NoDup (keys (map_of k b)) /\
             forall id, lookup (map_of k a) id = lookup (map_of k b) id)
  /\ si_non_verbose a = si_non_verbose b.

(* ---------- merge trees: any grouping of the parts of a stream ---------- *)
Inductive mtree := Leaf (l : list statistic) | Node (a b : mtree).

Fixpoint eval_tree (t : mtree) : stat_info :=
  match t with
  | Leaf l => collect_all l
  | Node a b => merge (eval_tree a) (eval_tree b)
  end.

(* the parts, left to right *)
Fixpoint leaves (t : mtree) : list (list statistic) :=
  match t with
  | Leaf l => [l]
  | Node a b => leaves a ++ leaves b
  end.

Definition flatten (t : mtree) : list statistic := concat (leaves t).
