(* WellFormedConfig.v — the domain of C15 (Message::new): the message configurations from which
   the constructor builds a well-formed message, as a *boolean* predicate.

   [wf_config c] says
     * the parts are representable / canonical: version < 8 (3 bits of HTYP), counter < 256,
       ids at most 4 bytes of NUL-free UTF-8, session id and timestamp < 2^32, the message type
       of the extended-header configuration canonical ([wf_mtype]), application and context id ids;
     * the payload kind is the one the extended-header configuration announces ([wf_cfg_kind]):
         - verbose arguments: an extended-header configuration is present, its message type is
           NOT network trace, at most 255 arguments, each [wf_arg];
         - network-trace slices: an extended-header configuration is present, its message type IS
           network trace, at most 255 slices, each at most 65535 bytes;
         - control payload: an extended-header configuration is present, its message type is
           control, and the service id is canonical ([wf_control_id]);
         - non-verbose payload: message id < 2^32 and, when an extended-header configuration is
           present, its message type is not control;
     * the whole message fits the 16-bit length field ([cfg_total_length c <= 65535]).

   Configurations that are EXCLUDED and why (see Proofs/Lengths.v, [c15_config_exact]: the
   predicate is exactly "Message::new yields a well-formed message", nothing more is excluded):
     * a verbose / network-trace / control payload WITHOUT extended-header configuration:
       Message::new emits no extended header, so there is no verbose flag, no NOAR and no message
       type on the wire and the bytes read back as a non-verbose payload (or fail for < 4 bytes);
     * verbose payload with message type network trace, network-trace payload with another message
       type, control payload with a non-control type, non-verbose payload with a control type:
       the parser chooses the payload kind from the verbose flag and the message type, so the bytes
       read back as the other kind;
     * more than 255 arguments/slices: arg_count() is `len as u8`, i.e. NOAR = len mod 256;
     * a total above 65535: payload_length is `len as u16`, i.e. truncated.

   Definitions only. *)
From DltV.Model Require Import Bytes Utf8 Dlt.
From DltV.Spec Require Import WellFormed.
Open Scope N_scope.

Definition wf_ext_config (x : ext_config) : bool :=
  wf_mtype (c_mtype x) && wf_id (c_apid x) && wf_id (c_ctid x).

(* payload kind consistent with the extended-header configuration *)
Definition wf_cfg_kind (x : option ext_config) (p : payload) : bool :=
  match p, x with
  | PVerbose args, Some e =>
    (len args <=? 255) && negb (is_nw_trace (c_mtype e)) && forallb wf_arg args
  | PNetworkTrace sl, Some e =>
    (len sl <=? 255) && is_nw_trace (c_mtype e) && forallb (fun s => len s <=? 65535) sl
  | PControl ct _, Some e => is_control (c_mtype e) && wf_control_id ct
  | PNonVerbose id _, Some e => negb (is_control (c_mtype e)) && (id <? 2 ^ 32)
  | PNonVerbose id _, None => id <? 2 ^ 32
  | _, None => false
  end.

(* standard header + optional fields + extended header + serialised payload *)
Definition cfg_total_length (c : message_config) : N :=
  4 + (if is_some (c_ecu c) then 4 else 0)
    + (if is_some (c_session c) then 4 else 0)
    + (if is_some (c_timestamp c) then 4 else 0)
    + (if is_some (c_ext c) then 10 else 0)
    + len (payload_bytes (c_endian c) (c_payload c)).

Definition wf_config (c : message_config) : bool :=
  (c_version c <? 8) && (c_counter c <? 256) && wf_opt wf_id (c_ecu c)
  && wf_opt (fun v => v <? 2 ^ 32) (c_session c) && wf_opt (fun v => v <? 2 ^ 32) (c_timestamp c)
  && wf_opt wf_ext_config (c_ext c) && wf_cfg_kind (c_ext c) (c_payload c)
  && (cfg_total_length c <=? 65535).

(* what the payload kind requires of the extended header (independent of the model's
   [payload_is_verbose] / [payload_arg_count]) *)
Definition required_verbose (p : payload) : bool :=
  match p with
  | PVerbose _ => true | PNetworkTrace _ => true
  | PNonVerbose _ _ => false | PControl _ _ => false
  end.
Definition required_noar (p : payload) : N :=
  match p with
  | PVerbose args => len args | PNetworkTrace sl => len sl
  | PNonVerbose _ _ => 0 | PControl _ _ => 0
  end.

(* a message without its storage header *)
Definition strip_storage (m : message) : message :=
  mkMsg None (m_header m) (m_ext m) (m_payload m).

(* the ECU id add_storage_header puts into the storage header: the header's, or "ECU" *)
Definition storage_ecu (m : message) : list byte :=
  match h_ecu (m_header m) with Some e => e | None => [x45; x43; x55] end.

(* Argument::valid as the property states it: the value variant a bool / f32 / f64 type demands *)
Definition value_is_bool (v : value) : bool := match v with VBool _ => true | _ => false end.
Definition value_is_f32 (v : value) : bool := match v with VF32 _ => true | _ => false end.
Definition value_is_f64 (v : value) : bool := match v with VF64 _ => true | _ => false end.
