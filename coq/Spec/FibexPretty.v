(* FibexPretty.v — FIBEX documents as tools write them: what may surround and interleave the
   canonical event shape of Spec/FibexSpec.v without changing what the loader returns (C11b).

   Two layers, composed in [pad_rendering] (layer 1 used in both directions):

   layer 2, [pad_elements]  (knows the element structure): between top-level elements, and inside
     SIGNAL and CODING elements, a run of [noise] may stand: inert events, and events that only
     write reader fields which every top-level element re-initialises before use (text elements
     such as SHORT-NAME / APPLICATION_ID / CONTEXT_ID, a MANUFACTURER-EXTENSION start or end) — this
     is the ECU block of tests/dlt-messages.xml, the PROJECT header, the SHORT-NAME of a SIGNAL
     or CODING.

   layer 1, [pad0]  (knows nothing about elements; holds for arbitrary event lists): anywhere
     except directly behind the Start event of an element whose text the loader reads, an [inert]
     event may be inserted (declaration, comments, any Text, Start/Empty/End events with names the
     corresponding `match` does not act upon: wrappers, ignored children — balanced or not);
     and the attribute list of a Start/Empty event may be replaced by one that agrees on the three
     attributes the loader ever asks for (ID, ID-REF, BASE-DATA-TYPE).

   Definitions only; proofs in Proofs/FibexPretty.v. *)
From Coq.Strings Require Import Ascii String.
From DltV.Model Require Import Bytes RustInt Dlt Fibex.
From DltV.Spec Require Import FibexSpec.
Open Scope N_scope.

(* ---------- layer 1 ---------- *)

(* the Start tags whose arm calls read_text / read_usize: the NEXT XML event is consumed by the arm *)
Definition text_tag (t : tag) : bool :=
  match t with
  | T_SHORT_NAME | T_PDU_TYPE | T_FRAME_TYPE | T_APPLICATION_ID | T_CONTEXT_ID
  | T_MESSAGE_INFO | T_MESSAGE_TYPE => true
  | _ => false
  end.
Definition num_tag (t : tag) : bool :=
  match t with T_BYTE_LENGTH | T_SEQUENCE_NUMBER => true | _ => false end.
Definition reads_next_tag (t : tag) : bool :=
  text_tag t || num_tag t || match t with T_DESC => true | _ => false end.
Definition reads_next (e : xevent) : bool :=
  match e with XStart n _ => reads_next_tag (classify n) | _ => false end.

(* an XML event on which one iteration of Reader::read_event does nothing but drop it, whatever
   the reader state *)
Definition inert (e : xevent) : bool :=
  match e with
  | XOther | XText _ => true
  | XStart n _ => match classify n with T_OTHER | T_CODING_REF => true | _ => false end
  | XEmpty n _ =>
    match classify n with
    | T_SIGNAL_REF | T_PDU_REF | T_CODING_REF | T_CODED_TYPE => false
    | _ => true
    end
  | XEnd n =>
    match classify n with
    | T_PDU | T_SIGNAL_INSTANCE | T_FRAME | T_PDU_INSTANCE | T_MANUFACTURER_EXTENSION
    | T_SIGNAL | T_CODING => false
    | _ => true
    end
  | XErr => false
  end.

(* the special case the property text speaks of: balanced elements with unrecognised names (any
   attributes), nested, with text, comments and empty elements inside *)
Inductive inert_forest : list xevent -> Prop :=
| if_nil : inert_forest []
| if_text t l : inert_forest l -> inert_forest (XText t :: l)
| if_other l : inert_forest l -> inert_forest (XOther :: l)
| if_empty n a l : classify n = T_OTHER -> inert_forest l -> inert_forest (XEmpty n a :: l)
| if_elem n a body l :
    classify n = T_OTHER -> inert_forest body -> inert_forest l ->
    inert_forest (XStart n a :: body ++ XEnd n :: l).

(* attribute lists the loader cannot tell apart *)
Definition same_attrs (a a' : list xattr) : Prop :=
  attr_opt a B_ID = attr_opt a' B_ID /\
  attr_opt a B_ID_REF = attr_opt a' B_ID_REF /\
  attr_opt a B_BASE_DATA_TYPE = attr_opt a' B_BASE_DATA_TYPE.

Inductive ev_sim : xevent -> xevent -> Prop :=
| sim_same e : ev_sim e e
| sim_start n a a' : same_attrs a a' -> ev_sim (XStart n a) (XStart n a')
| sim_empty n a a' : same_attrs a a' -> ev_sim (XEmpty n a) (XEmpty n a').

(* [pad0 l l']: l' is l with inert events inserted / attributes enriched *)
Inductive pad0 : list xevent -> list xevent -> Prop :=
| pad0_nil : pad0 [] []
| pad0_ins e l l' : inert e = true -> pad0 l l' -> pad0 l (e :: l')
| pad0_keep e e' l l' : ev_sim e e' -> reads_next e = false -> pad0 l l' -> pad0 (e :: l) (e' :: l')
| pad0_text e e' x l l' :                       (* the event behind a text-reading Start stays there *)
    ev_sim e e' -> reads_next e = true -> pad0 l l' -> pad0 (e :: x :: l) (e' :: x :: l')
| pad0_text_end e e' : ev_sim e e' -> reads_next e = true -> pad0 [e] [e'].

Inductive xfile_pad0 : xfile -> xfile -> Prop :=
| xp_missing : xfile_pad0 FileMissing FileMissing
| xp_events l l' : pad0 l l' -> xfile_pad0 (FileEvents l) (FileEvents l').

(* ---------- layer 2 ---------- *)

(* runs of events that, from ANY reader state, neither fail nor make the per-file loop collect
   anything, and leave the fields id / ref / base_data_type alone *)
Inductive noise : list xevent -> Prop :=
| noise_nil : noise []
| noise_inert e l : inert e = true -> noise l -> noise (e :: l)
| noise_text n a t l :                                      (* <SHORT-NAME>t</..>, <CONTEXT_ID>t</..>, .. *)
    text_tag (classify n) = true -> noise l -> noise (XStart n a :: XText (Some t) :: l)
| noise_num n a t v l :                                     (* <BYTE-LENGTH>12</..> *)
    num_tag (classify n) = true -> usize_from_str t = Some v -> noise l ->
    noise (XStart n a :: XText (Some t) :: l)
| noise_desc n a x l :                                      (* <DESC>: read_text(..).ok() *)
    classify n = T_DESC -> noise l -> noise (XStart n a :: x :: l)
| noise_ext_start n a l :
    classify n = T_MANUFACTURER_EXTENSION -> noise l -> noise (XStart n a :: l)
| noise_ext_end n l :                                       (* returns an event the file loop ignores *)
    classify n = T_MANUFACTURER_EXTENSION -> noise l -> noise (XEnd n :: l).

Inductive pad_element : element -> list xevent -> Prop :=
| pe_pdu p : pad_element (ElPdu p) (render_pdu p)
| pe_frame f : pad_element (ElFrame f) (render_frame f)
| pe_signal id coding_ref n1 n2 :
    noise n1 -> noise n2 ->
    pad_element (ElSignal id coding_ref)
      ([XStart (bs "SIGNAL") [id_attr_of id]] ++ n1
       ++ [XEmpty (bs "CODING-REF") [id_ref_attr_of coding_ref]] ++ n2
       ++ [XEnd (bs "SIGNAL")])
| pe_coding id base n1 n2 n3 :
    noise n1 -> noise n2 -> noise n3 ->
    pad_element (ElCoding id base)
      ([XStart (bs "CODING") [id_attr_of id]] ++ n1
       ++ [XStart (bs "CODED-TYPE") [Attr (bs "ho:BASE-DATA-TYPE") (Some base)]] ++ n2
       ++ [XEnd (bs "CODED-TYPE")] ++ n3
       ++ [XEnd (bs "CODING")]).

Inductive pad_elements : list element -> list xevent -> Prop :=
| pes_nil n : noise n -> pad_elements [] n
| pes_cons n e evs t rest :
    noise n -> pad_element e evs -> pad_elements t rest -> pad_elements (e :: t) (n ++ evs ++ rest).

(* ---------- both ---------- *)
(* [mid] is the canonical rendering with noise; the document evs' and mid are both paddings of a
   common [core].  With core = mid this is pure padding (evs' = mid plus inert events); a smaller
   core additionally lets the document LACK inert events of the canonical shape — the PDUs without
   signals in tests/dlt-messages.xml have no (empty) SIGNAL-INSTANCES wrapper. *)
Definition pad_rendering (els : list element) (evs' : list xevent) : Prop :=
  exists mid core, pad_elements els mid /\ pad0 core mid /\ pad0 core evs'.

Inductive file_pad : list element -> xfile -> Prop :=
| file_pad_intro els evs' : pad_rendering els evs' -> file_pad els (FileEvents evs').
