(* Spec/Layout.v — C02: an independent reference codec of the AUTOSAR DLT wire layout.

   Written from the format description (storage header 'DLT\x01' + little-endian
   seconds/microseconds + 4-byte ECU id; standard header HTYP, MCNT, big-endian LEN, then ECU id,
   session id, timestamp in that order; extended header MSIN, NOAR, APID, CTID; payload fields in
   the byte order announced by the MSBF bit; type-info bit positions; 16-bit length prefixes; NUL
   terminators).  It does not use the nom-style model (Model/Nom.v, Model/Parse.v) nor the
   model's bit code (land/shiftr): bit fields are [N.testbit] and [/ 2^lo mod 2^n], words are sums
   of bit weights.  Shared with the model are only the byte <-> number conversions of
   Model/Bytes.v, the data types of Model/Dlt.v and the UTF-8 scanner of Model/Utf8.v.

   Definitions only (executable; extracted and used as a test oracle).  The decoder is
   "locate, cut, decode":  [spec_decode] finds the message and its declared length LEN, cuts
   exactly LEN bytes, and [decode_cut] decodes that slice with total readers. *)
From DltV.Model Require Import Bytes Utf8 Dlt.
Open Scope N_scope.

Inductive verdict :=
| VMessage (m : message) (consumed : N)   (* a message and the number of input bytes it used up *)
| VIncomplete                             (* the buffer ends before the headers / the declared length *)
| VReject.                                (* not a DLT message *)

(* ================= 1. bit fields ================= *)
Definition bit (w i : N) : bool := N.testbit w i.
(* the [n]-bit field whose least significant bit is bit [lo] *)
Definition bits (w lo n : N) : N := (w / 2 ^ lo) mod 2 ^ n.
Definition b2 (b : bool) : N := if b then 1 else 0.
Definition present {A} (o : option A) : bool := match o with Some _ => true | None => false end.

(* ---- HTYP:  bit 0 UEH, 1 MSBF, 2 WEID, 3 WSID, 4 WTMS, 5-7 VERS ---- *)
Definition htyp_ueh (h : N) := bit h 0.
Definition htyp_msbf (h : N) := bit h 1.
Definition htyp_weid (h : N) := bit h 2.
Definition htyp_wsid (h : N) := bit h 3.
Definition htyp_wtms (h : N) := bit h 4.
Definition htyp_vers (h : N) := bits h 5 3.
Definition opt4 (c : bool) : N := if c then 4 else 0.
(* HTYP MCNT LEN(2) [ECU(4)] [SEID(4)] [TMSP(4)] *)
Definition std_len (h : N) : N := 4 + opt4 (htyp_weid h) + opt4 (htyp_wsid h) + opt4 (htyp_wtms h).
(* ... [MSIN NOAR APID(4) CTID(4)] *)
Definition hdr_len (h : N) : N := std_len h + (if htyp_ueh h then 10 else 0).
Definition htyp_word (ueh msbf weid wsid wtms : bool) (vers : N) : N :=
  b2 ueh + 2 * b2 msbf + 4 * b2 weid + 8 * b2 wsid + 16 * b2 wtms + 32 * vers.

(* ---- MSIN:  bit 0 VERB, 1-3 MSTP, 4-7 MTIN ---- *)
Definition mtype_of (mstp mtin : N) : message_type :=
  match mstp with
  | 0 => MLog (match mtin with
               | 1 => Fatal | 2 => LError | 3 => Warn | 4 => Info | 5 => Debug | 6 => Verbose
               | v => LInvalid v end)
  | 1 => MAppTrace (match mtin with
                    | 1 => AVariable | 2 => AFunctionIn | 3 => AFunctionOut | 4 => AState | 5 => AVfb
                    | v => AInvalid v end)
  | 2 => MNwTrace (match mtin with
                   | 0 => NInvalid | 1 => NIpc | 2 => NCan | 3 => NFlexray | 4 => NMost
                   | 5 => NEthernet | 6 => NSomeip | v => NUserDefined v end)
  | 3 => MControl (match mtin with 1 => CRequest | 2 => CResponse | v => CUnknown v end)
  | v => MUnknown v mtin
  end.
(* (MSTP, MTIN) of a message type *)
Definition mtype_codes (t : message_type) : N * N :=
  match t with
  | MLog l => (0, match l with
                  | Fatal => 1 | LError => 2 | Warn => 3 | Info => 4 | Debug => 5 | Verbose => 6
                  | LInvalid v => v end)
  | MAppTrace a => (1, match a with
                       | AVariable => 1 | AFunctionIn => 2 | AFunctionOut => 3 | AState => 4 | AVfb => 5
                       | AInvalid v => v end)
  | MNwTrace n => (2, match n with
                      | NInvalid => 0 | NIpc => 1 | NCan => 2 | NFlexray => 3 | NMost => 4
                      | NEthernet => 5 | NSomeip => 6 | NUserDefined v => v end)
  | MControl c => (3, match c with CRequest => 1 | CResponse => 2 | CUnknown v => v end)
  | MUnknown mstp mtin => (mstp, mtin)
  end.
Definition msin_word (verbose : bool) (t : message_type) : N :=
  let '(mstp, mtin) := mtype_codes t in b2 verbose + 2 * mstp + 16 * mtin.

(* ---- type info:  bits 0-3 TYLE, 4 BOOL, 5 SINT, 6 UINT, 7 FLOA, 8 ARAY, 9 STRG, 10 RAWD,
        11 VARI, 12 FIXP, 13 TRAI, 14 STRU, 15-17 SCOD ---- *)
Definition width_of_tyle (tyle : N) : option type_length :=
  match tyle with
  | 1 => Some BL8 | 2 => Some BL16 | 3 => Some BL32 | 4 => Some BL64 | 5 => Some BL128
  | _ => None
  end.
Definition fwidth_of_tyle (tyle : N) : option float_width :=
  match tyle with 3 => Some W32 | 4 => Some W64 | _ => None end.
Definition tyle_of_width (l : type_length) : N :=
  match l with BL8 => 1 | BL16 => 2 | BL32 => 3 | BL64 => 4 | BL128 => 5 end.
Definition tyle_of_fwidth (w : float_width) : N := match w with W32 => 3 | W64 => 4 end.
Definition coding_of (scod : N) : string_coding :=
  match scod with 0 => SAscii | 1 => SUtf8 | v => SReserved v end.
Definition scod_of (c : string_coding) : N :=
  match c with SAscii => 0 | SUtf8 => 1 | SReserved v => v end.

(* among the type bits BOOL..RAWD (4-10) exactly bit [i] is set; ARAY (8) is never accepted *)
Definition only_type_bit (w i : N) : bool :=
  forallb (fun j => Bool.eqb (bit w j) (j =? i)) [4; 5; 6; 7; 8; 9; 10].

(* Dialect: TYLE is ignored for bool/string/raw, FIXP is ignored for bool/float/string/raw,
   STRU and every bit above 17 are ignored; integers need TYLE 1-5, floats and fixed-point
   integers TYLE 3-4; anything else is not a supported type info. *)
Definition ti_of_word (w : N) : option type_info :=
  let tyle := bits w 0 4 in
  let fixp := bit w 12 in
  let kind :=
    if only_type_bit w 4 then Some KBool
    else if only_type_bit w 5 then
      (if fixp then option_map KSignedFixed (fwidth_of_tyle tyle)
       else option_map KSigned (width_of_tyle tyle))
    else if only_type_bit w 6 then
      (if fixp then option_map KUnsignedFixed (fwidth_of_tyle tyle)
       else option_map KUnsigned (width_of_tyle tyle))
    else if only_type_bit w 7 then option_map KFloat (fwidth_of_tyle tyle)
    else if only_type_bit w 9 then Some KString
    else if only_type_bit w 10 then Some KRaw
    else None in
  option_map (fun k => mkTI k (coding_of (bits w 15 3)) (bit w 11) (bit w 13)) kind.

Definition word_of_ti (t : type_info) : N :=
  let k := ti_kind_of t in
  (match k with
   | KSigned l | KUnsigned l => tyle_of_width l
   | KSignedFixed w | KUnsignedFixed w | KFloat w => tyle_of_fwidth w
   | KBool | KString | KRaw => 0
   end)
  + 16 * b2 (match k with KBool => true | _ => false end)
  + 32 * b2 (match k with KSigned _ | KSignedFixed _ => true | _ => false end)
  + 64 * b2 (match k with KUnsigned _ | KUnsignedFixed _ => true | _ => false end)
  + 128 * b2 (match k with KFloat _ => true | _ => false end)
  + 512 * b2 (match k with KString => true | _ => false end)
  + 1024 * b2 (match k with KRaw => true | _ => false end)
  + 2048 * b2 (ti_var_info t)
  + 4096 * b2 (match k with KSignedFixed _ | KUnsignedFixed _ => true | _ => false end)
  + 8192 * b2 (ti_trace_info t)
  + 32768 * scod_of (ti_coding t).

(* ================= 2. text fields ================= *)
(* the bytes before the first NUL (all of them if there is none) *)
Fixpoint until_nul (l : list byte) : list byte :=
  match l with
  | [] => []
  | b :: r => if b2n b =? 0 then [] else b :: until_nul r
  end.
(* content of a fixed-size text field: up to the first NUL, and of that the longest valid UTF-8 prefix *)
Definition text_of (field : list byte) : list byte := utf8_prefix (until_nul field).
(* an id of up to 4 bytes, NUL-padded to 4 *)
Definition pad4 (id : list byte) : list byte := id ++ repeat x00 (4 - length id).

Definition byte_at (c : list byte) (i : nat) : N := b2n (nth i c x00).
Definition sub (c : list byte) (off k : nat) : list byte := firstn k (skipn off c).

(* ================= 3. encoding ================= *)
Definition storage_marker : list byte := [x44; x4c; x54; x01].        (* "DLT" 0x01 *)

Definition enc_storage (s : storage_header) : list byte :=
  storage_marker ++ put_uint LE 4 (ts_secs (sh_ts s)) ++ put_uint LE 4 (ts_micros (sh_ts s))
  ++ pad4 (sh_ecu s).

Definition enc_ext (x : ext_header) : list byte :=
  [n2b (msin_word (e_verbose x) (e_mtype x)); n2b (e_noar x)] ++ pad4 (e_apid x) ++ pad4 (e_ctid x).

(* [len16] name NUL *)
Definition enc_name (e : endian) (name : option (list byte)) : list byte :=
  match name with
  | Some n => put_uint e 2 (len n + 1) ++ n ++ [x00]
  | None => []
  end.
(* [len16 name] [len16 unit] name NUL unit NUL *)
Definition enc_name_unit (e : endian) (name unit : option (list byte)) : list byte :=
  match name, unit with
  | Some n, Some u => put_uint e 2 (len n + 1) ++ put_uint e 2 (len u + 1) ++ n ++ [x00] ++ u ++ [x00]
  | _, _ => []
  end.
(* quantization (f32 bits) then offset (i32 / i64) *)
Definition enc_fixed (e : endian) (fp : option fixed_point) : list byte :=
  match fp with
  | Some f =>
    put_uint e 4 (fp_quant f) ++
    match fp_offset f with FI32 z => put_sint e 4 z | FI64 z => put_sint e 8 z end
  | None => []
  end.
Definition enc_number (e : endian) (v : value) : list byte :=
  match v with
  | VU8 n => put_uint e 1 n | VU16 n => put_uint e 2 n | VU32 n => put_uint e 4 n
  | VU64 n => put_uint e 8 n | VU128 n => put_uint e 16 n
  | VI8 z => put_sint e 1 z | VI16 z => put_sint e 2 z | VI32 z => put_sint e 4 z
  | VI64 z => put_sint e 8 z | VI128 z => put_sint e 16 z
  | VF32 b => put_uint e 4 b | VF64 b => put_uint e 8 b
  | VBool _ | VString _ | VRaw _ => []
  end.

(* one verbose argument: type info, then
     bool:    [name] data(1)
     number:  [name+unit] [quantization offset] data
     string:  len16 (counting the NUL) [name] data NUL
     raw:     len16 [name] data *)
Definition enc_arg (e : endian) (a : argument) : list byte :=
  put_uint e 4 (word_of_ti (a_ti a)) ++
  match a_value a with
  | VBool n => enc_name e (a_name a) ++ [n2b n]
  | VString s => put_uint e 2 (len s + 1) ++ enc_name e (a_name a) ++ s ++ [x00]
  | VRaw bs => put_uint e 2 (len bs) ++ enc_name e (a_name a) ++ bs
  | v => enc_name_unit e (a_name a) (a_unit a) ++ enc_fixed e (a_fp a) ++ enc_number e v
  end.

Definition service_id (c : control_type) : N :=
  match c with CRequest => 1 | CResponse => 2 | CUnknown n => n end.
Definition control_of (id : N) : control_type :=
  match id with 1 => CRequest | 2 => CResponse | n => CUnknown n end.

Definition enc_payload (e : endian) (p : payload) : list byte :=
  match p with
  | PVerbose args => flat_map (enc_arg e) args
  | PNonVerbose id bs => put_uint e 4 id ++ bs                   (* message id, data *)
  | PControl ct bs => n2b (service_id ct) :: bs                   (* service id, data *)
  | PNetworkTrace slices =>                                       (* unnamed raw arguments *)
    flat_map (fun s => put_uint e 4 1024 ++ put_uint e 2 (len s) ++ s) slices
  end.

Definition spec_encode (m : message) : list byte :=
  let h := m_header m in
  let optional :=
    (match h_ecu h with Some id => pad4 id | None => [] end)
    ++ (match h_session h with Some v => put_uint BE 4 v | None => [] end)
    ++ (match h_timestamp h with Some v => put_uint BE 4 v | None => [] end) in
  let ext := match m_ext m with Some x => enc_ext x | None => [] end in
  let pay := enc_payload (h_endian h) (m_payload m) in
  (* LEN counts everything from HTYP to the end of the payload *)
  let LEN := 4 + len optional + len ext + len pay in
  let htyp := htyp_word (present (m_ext m)) (match h_endian h with BE => true | LE => false end)
                (present (h_ecu h)) (present (h_session h)) (present (h_timestamp h)) (h_version h) in
  (match m_storage m with Some s => enc_storage s | None => [] end)
  ++ [n2b htyp; n2b (h_mcnt h)] ++ put_uint BE 2 LEN ++ optional ++ ext ++ pay.

(* ================= 4. decoding: total readers on a slice ================= *)
(* a reader takes a value off the front of a slice, or says that it does not fit *)
Definition reader (A : Type) := list byte -> option (A * list byte).
Definition obind {A B} (x : option (A * list byte)) (g : A -> list byte -> option B) : option B :=
  match x with Some (v, r) => g v r | None => None end.
Notation "'let?' ( x , r ) := p 'in' q" := (obind p (fun x r => q))
  (at level 200, x name, r name, p at level 100, q at level 200).

(* the next [k] bytes, interpreted by [f] *)
Definition rd {A} (k : N) (f : list byte -> A) : reader A :=
  fun bs => if len bs <? k then None
            else Some (f (firstn (N.to_nat k) bs), skipn (N.to_nat k) bs).
Definition rd_opt {A} (c : bool) (g : reader A) : reader (option A) :=
  fun bs => if c then (let? (v, r) := g bs in Some (Some v, r)) else Some (None, bs).

Definition rd_uint (e : endian) (k : N) : reader N := rd k (get_uint e).
Definition rd_sint (e : endian) (k : N) : reader Z := rd k (get_sint e).
Definition rd_text (size : N) : reader (list byte) := rd size text_of.
Definition rd_bytes (n : N) : reader (list byte) := rd n (fun c => c).

(* fixed-layout headers, as functions of their bytes *)
Definition storage_of (c : list byte) : storage_header :=       (* c: 16 bytes, marker at 0 *)
  mkSH (mkTS (get_uint LE (sub c 4 4)) (get_uint LE (sub c 8 4))) (text_of (sub c 12 4)).
Definition ext_of (c : list byte) : ext_header :=               (* c: 10 bytes *)
  let msin := byte_at c 0 in
  mkExt (bit msin 0) (byte_at c 1) (mtype_of (bits msin 1 3) (bits msin 4 4))
        (text_of (sub c 2 4)) (text_of (sub c 6 4)).

(* ---- verbose arguments ---- *)
(* len16, then that many bytes of NUL-terminated text *)
Definition rd_name (e : endian) : reader (list byte) :=
  fun bs => let? (n, r) := rd_uint e 2 bs in rd_text n r.
Definition rd_name_opt (e : endian) (vari : bool) : reader (option (list byte)) :=
  rd_opt vari (rd_name e).
(* both lengths first, then both texts *)
Definition rd_name_unit (e : endian) (vari : bool)
  : reader (option (list byte) * option (list byte)) :=
  fun bs =>
    if vari then
      let? (nl, r) := rd_uint e 2 bs in
      let? (ul, r) := rd_uint e 2 r in
      let? (name, r) := rd_text nl r in
      let? (unit, r) := rd_text ul r in
      Some ((Some name, Some unit), r)
    else Some ((None, None), bs).

Definition int_bytes (l : type_length) : N :=
  match l with BL8 => 1 | BL16 => 2 | BL32 => 4 | BL64 => 8 | BL128 => 16 end.
Definition float_bytes (w : float_width) : N := match w with W32 => 4 | W64 => 8 end.
Definition int_of_float_width (w : float_width) : type_length :=
  match w with W32 => BL32 | W64 => BL64 end.

Definition rd_unsigned (e : endian) (l : type_length) : reader value :=
  fun bs =>
    let? (n, r) := rd_uint e (int_bytes l) bs in
    Some (match l with
          | BL8 => VU8 n | BL16 => VU16 n | BL32 => VU32 n | BL64 => VU64 n | BL128 => VU128 n
          end, r).
Definition rd_signed (e : endian) (l : type_length) : reader value :=
  fun bs =>
    let? (z, r) := rd_sint e (int_bytes l) bs in
    Some (match l with
          | BL8 => VI8 z | BL16 => VI16 z | BL32 => VI32 z | BL64 => VI64 z | BL128 => VI128 z
          end, r).
Definition rd_float (e : endian) (w : float_width) : reader value :=
  fun bs =>
    let? (b, r) := rd_uint e (float_bytes w) bs in
    Some (match w with W32 => VF32 b | W64 => VF64 b end, r).
Definition rd_fixed (e : endian) (w : float_width) : reader fixed_point :=
  fun bs =>
    let? (q, r) := rd_uint e 4 bs in
    let? (o, r) := rd_sint e (float_bytes w) r in
    Some (mkFP q (match w with W32 => FI32 o | W64 => FI64 o end), r).

Definition rd_arg (e : endian) : reader argument :=
  fun bs =>
    let? (w, r) := rd_uint e 4 bs in
    match ti_of_word w with
    | None => None
    | Some t =>
      let vari := ti_var_info t in
      match ti_kind_of t with
      | KBool =>
        let? (name, r) := rd_name_opt e vari r in
        let? (b, r) := rd_uint e 1 r in
        Some (mkArg t name None None (VBool b), r)
      | KSigned l =>
        let? (nu, r) := rd_name_unit e vari r in
        let? (v, r) := rd_signed e l r in
        Some (mkArg t (fst nu) (snd nu) None v, r)
      | KUnsigned l =>
        let? (nu, r) := rd_name_unit e vari r in
        let? (v, r) := rd_unsigned e l r in
        Some (mkArg t (fst nu) (snd nu) None v, r)
      | KSignedFixed w =>
        let? (nu, r) := rd_name_unit e vari r in
        let? (fp, r) := rd_fixed e w r in
        let? (v, r) := rd_signed e (int_of_float_width w) r in
        Some (mkArg t (fst nu) (snd nu) (Some fp) v, r)
      | KUnsignedFixed w =>
        let? (nu, r) := rd_name_unit e vari r in
        let? (fp, r) := rd_fixed e w r in
        let? (v, r) := rd_unsigned e (int_of_float_width w) r in
        Some (mkArg t (fst nu) (snd nu) (Some fp) v, r)
      | KFloat w =>
        let? (nu, r) := rd_name_unit e vari r in
        let? (v, r) := rd_float e w r in
        Some (mkArg t (fst nu) (snd nu) None v, r)
      | KString =>
        let? (size, r) := rd_uint e 2 r in
        let? (name, r) := rd_name_opt e vari r in
        let? (s, r) := rd_text size r in
        Some (mkArg t name None None (VString s), r)
      | KRaw =>
        let? (size, r) := rd_uint e 2 r in
        let? (name, r) := rd_name_opt e vari r in
        let? (bs', r) := rd_bytes size r in
        Some (mkArg t name None None (VRaw bs'), r)
      end
    end.

(* [n] arguments one after the other; every one must fit *)
Fixpoint rd_args (e : endian) (n : nat) : reader (list argument) :=
  fun bs =>
    match n with
    | O => Some ([], bs)
    | S n' =>
      let? (a, r) := rd_arg e bs in
      let? (l, r) := rd_args e n' r in
      Some (a :: l, r)
    end.

Definition raw_data (args : list argument) : list (list byte) :=
  flat_map (fun a => match a_value a with VRaw bs => [bs] | _ => [] end) args.

(* the payload slice [pl] (exactly the declared payload).
     verbose: NOAR arguments, bytes behind the last one are ignored; a network-trace message
              keeps the data of its raw arguments;
     control (non-verbose, MSTP = control): service id (1 byte), data;
     otherwise: message id (4 bytes, payload byte order), data. *)
Definition decode_payload (e : endian) (ext : option ext_header) (pl : list byte) : option payload :=
  let non_verbose :=
    let? (id, r) := rd_uint e 4 pl in Some (PNonVerbose id r) in
  match ext with
  | None => non_verbose
  | Some x =>
    if e_verbose x then
      let? (args, _r) := rd_args e (N.to_nat (e_noar x)) pl in
      Some (match e_mtype x with
            | MNwTrace _ => PNetworkTrace (raw_data args)
            | _ => PVerbose args
            end)
    else
      match e_mtype x with
      | MControl _ => let? (id, r) := rd_uint BE 1 pl in Some (PControl (control_of id) r)
      | _ => non_verbose
      end
  end.

(* a complete message, cut to exactly its declared length (without storage header) *)
Definition decode_cut (st : option storage_header) (msg : list byte) : option message :=
  let? (htyp, r) := rd_uint BE 1 msg in
  let? (mcnt, r) := rd_uint BE 1 r in
  let? (_LEN, r) := rd_uint BE 2 r in
  let? (ecu, r) := rd_opt (htyp_weid htyp) (rd_text 4) r in
  let? (session, r) := rd_opt (htyp_wsid htyp) (rd_uint BE 4) r in
  let? (tmsp, r) := rd_opt (htyp_wtms htyp) (rd_uint BE 4) r in
  let? (ext, r) := rd_opt (htyp_ueh htyp) (rd 10 ext_of) r in
  let e := if htyp_msbf htyp then BE else LE in
  let std := mkStd (htyp_vers htyp) e (htyp_ueh htyp) mcnt ecu session tmsp (len r) in
  match decode_payload e ext r with
  | Some p => Some (mkMsg st std ext p)
  | None => None
  end.

(* ================= 5. locating and cutting ================= *)
(* [a]: the input from the standard header on.  Rules, in this order:
     M1  fewer than 4 bytes                                  -> incomplete
     M2  fewer bytes than the standard header announced by
         HTYP (4 + 4*WEID + 4*WSID + 4*WTMS)                 -> incomplete
         (even if LEN is already visibly too small)
     M3  LEN < standard header + extended header (UEH)       -> reject
         (even if the extended header is not there yet)
     M4  fewer than LEN bytes                                -> incomplete
     M5  cut LEN bytes and decode them: message or reject;
         consumed = skipped + LEN *)
Definition decode_message (st : option storage_header) (skipped : N) (a : list byte) : verdict :=
  if len a <? 4 then VIncomplete
  else
    let htyp := byte_at a 0 in
    let LEN := get_uint BE (sub a 2 2) in
    if len a <? std_len htyp then VIncomplete
    else if LEN <? hdr_len htyp then VReject
    else if len a <? LEN then VIncomplete
    else match decode_cut st (firstn (N.to_nat LEN) a) with
         | Some m => VMessage m (skipped + LEN)
         | None => VReject
         end.

(* offset of the first occurrence of the storage marker *)
Fixpoint find_marker (bs : list byte) : option N :=
  match bs with
  | [] => None
  | _ :: r =>
    if bytes_eqb (firstn 4 bs) storage_marker then Some 0
    else option_map N.succ (find_marker r)
  end.

(* Storage mode ([sh] = true):
     S1  fewer than 16 bytes in the buffer                   -> incomplete
     S2  no marker in the buffer                             -> incomplete
         (the bytes before a later marker are junk; none yet, so more input is needed)
     S3  fewer than 16 bytes from the marker on              -> incomplete
     S4  the 16 bytes are the storage header; the message follows (rules M1-M5) with
         skipped = junk + 16.
   Without storage headers the message starts at the first byte. *)
Definition spec_decode (sh : bool) (bs : list byte) : verdict :=
  if sh then
    if len bs <? 16 then VIncomplete
    else match find_marker bs with
         | None => VIncomplete
         | Some k =>
           let r := skipn (N.to_nat k) bs in
           if len r <? 16 then VIncomplete
           else decode_message (Some (storage_of (firstn 16 r))) (k + 16) (skipn 16 r)
         end
  else decode_message None 0 bs.
