(* Spec/NonVerbose.v — what `construct_arguments` (parse.rs:1022-1227) is supposed to compute,
   written without nom parsers and without offsets: the payload of a non-verbose message is a
   sequence of packed fields, one per signal type, and decoding is "cut the next field off the
   front of the remaining bytes".  Definitions only; the proofs are in Proofs/NonVerboseProofs.v.

   Part 1: the decoder [spec_construct].
   Part 2: vocabulary of the consequence theorems (size of a field, value/kind agreement).
   Part 3: a second, panic-instrumented transcription of the Rust function in which every
           slice expression, index expression and usize addition carries its run-time check. *)
From DltV.Model Require Import Bytes RustInt Utf8 Nom Dlt Parse.
Open Scope N_scope.

(* ================= Part 1: the field-by-field decoder ================= *)

(* cut the first n bytes off d — fails when d has fewer than n bytes *)
Definition next (n : N) (d : list byte) : option (list byte * list byte) :=
  if len d <? n then None else Some (firstn (N.to_nat n) d, skipn (N.to_nat n) d).

(* width in bytes of an integer / float field *)
Definition int_width (l : type_length) : N :=
  match l with BL8 => 1 | BL16 => 2 | BL32 => 4 | BL64 => 8 | BL128 => 16 end.
Definition flt_width (w : float_width) : N := match w with W32 => 4 | W64 => 8 end.

(* the Value variant for each width *)
Definition unsigned_value (l : type_length) (n : N) : value :=
  match l with BL8 => VU8 n | BL16 => VU16 n | BL32 => VU32 n | BL64 => VU64 n | BL128 => VU128 n end.
Definition signed_value (l : type_length) (z : Z) : value :=
  match l with BL8 => VI8 z | BL16 => VI16 z | BL32 => VI32 z | BL64 => VI64 z | BL128 => VI128 z end.
Definition float_value (w : float_width) (bits : N) : value :=
  match w with W32 => VF32 bits | W64 => VF64 bits end.

(* One field of kind k from the front of d: the decoded value and the bytes behind the field.
     bool              1 byte, kept as it is
     unsigned / signed 1,2,4,8,16 bytes in byte order e, unsigned resp. two's complement
     float             4 / 8 bytes in byte order e, kept as the bit pattern
     string / raw      a 16-bit length in byte order e, then that many bytes; a string must be
                       well-formed UTF-8 (no terminating NUL is expected or removed)
     fixed point       refused: the implementation returns Err for these types on every payload
                       (lemma construct_fixed_point_refused) *)
Definition spec_field (e : endian) (k : ti_kind) (d : list byte) : option (value * list byte) :=
  match k with
  | KBool =>
    match d with
    | b :: r => Some (VBool (b2n b), r)
    | [] => None
    end
  | KUnsigned l =>
    match next (int_width l) d with
    | Some (f, r) => Some (unsigned_value l (get_uint e f), r)
    | None => None
    end
  | KSigned l =>
    match next (int_width l) d with
    | Some (f, r) => Some (signed_value l (get_sint e f), r)
    | None => None
    end
  | KFloat w =>
    match next (flt_width w) d with
    | Some (f, r) => Some (float_value w (get_uint e f), r)
    | None => None
    end
  | KString =>
    match next 2 d with
    | Some (lf, r) =>
      match next (get_uint e lf) r with
      | Some (s, r') => if valid_utf8 s then Some (VString s, r') else None
      | None => None
      end
    | None => None
    end
  | KRaw =>
    match next 2 d with
    | Some (lf, r) =>
      match next (get_uint e lf) r with
      | Some (s, r') => Some (VRaw s, r')
      | None => None
      end
    | None => None
    end
  | KSignedFixed _ | KUnsignedFixed _ => None
  end.

(* all fields in order: the arguments and the bytes left over behind the last field *)
Fixpoint spec_decode (e : endian) (tys : list type_info) (d : list byte)
  : option (list argument * list byte) :=
  match tys with
  | [] => Some ([], d)
  | t :: tys' =>
    match spec_field e (ti_kind_of t) d with
    | Some (v, r) =>
      match spec_decode e tys' r with
      | Some (args, r') => Some (mkArg t None None None v :: args, r')
      | None => None
      end
    | None => None
    end
  end.

(* the left-over bytes are ignored *)
Definition spec_construct (e : endian) (tys : list type_info) (d : list byte)
  : option (list argument) :=
  match spec_decode e tys d with
  | Some (args, _) => Some args
  | None => None
  end.

(* ================= Part 2: vocabulary of the consequences ================= *)

(* number of payload bytes occupied by the field a value was decoded from *)
Definition field_size (v : value) : N :=
  match v with
  | VBool _ | VU8 _ | VI8 _ => 1
  | VU16 _ | VI16 _ => 2
  | VU32 _ | VI32 _ | VF32 _ => 4
  | VU64 _ | VI64 _ | VF64 _ => 8
  | VU128 _ | VI128 _ => 16
  | VString s | VRaw s => 2 + len s
  end.
Fixpoint args_size (args : list argument) : N :=
  match args with
  | [] => 0
  | a :: r => field_size (a_value a) + args_size r
  end.

(* the value is of the variant its type announces and within the range of that variant *)
Definition value_of_kind (k : ti_kind) (v : value) : bool :=
  match k, v with
  | KBool, VBool n => n <? 2 ^ 8
  | KUnsigned BL8, VU8 n => n <? 2 ^ 8
  | KUnsigned BL16, VU16 n => n <? 2 ^ 16
  | KUnsigned BL32, VU32 n => n <? 2 ^ 32
  | KUnsigned BL64, VU64 n => n <? 2 ^ 64
  | KUnsigned BL128, VU128 n => n <? 2 ^ 128
  | KSigned BL8, VI8 z => in_signed 8 z
  | KSigned BL16, VI16 z => in_signed 16 z
  | KSigned BL32, VI32 z => in_signed 32 z
  | KSigned BL64, VI64 z => in_signed 64 z
  | KSigned BL128, VI128 z => in_signed 128 z
  | KFloat W32, VF32 b => b <? 2 ^ 32
  | KFloat W64, VF64 b => b <? 2 ^ 64
  | KString, VString s => valid_utf8 s && (len s <? 2 ^ 16)
  | KRaw, VRaw s => len s <? 2 ^ 16
  | _, _ => false
  end.

(* shape of one constructed argument *)
Definition plain_argument (a : argument) : Prop :=
  a_name a = None /\ a_unit a = None /\ a_fp a = None /\
  value_of_kind (ti_kind_of (a_ti a)) (a_value a) = true.

(* the payload bytes of one field, from the value (inverse direction of spec_field) *)
Definition field_bytes (e : endian) (v : value) : list byte :=
  match v with
  | VBool n => put_uint e 1 n
  | VU8 n => put_uint e 1 n | VU16 n => put_uint e 2 n | VU32 n => put_uint e 4 n
  | VU64 n => put_uint e 8 n | VU128 n => put_uint e 16 n
  | VI8 z => put_sint e 1 z | VI16 z => put_sint e 2 z | VI32 z => put_sint e 4 z
  | VI64 z => put_sint e 8 z | VI128 z => put_sint e 16 z
  | VF32 b => put_uint e 4 b | VF64 b => put_uint e 8 b
  | VString s | VRaw s => put_uint e 2 (len s) ++ s
  end.
Definition args_bytes (e : endian) (args : list argument) : list byte :=
  flat_map (fun a => field_bytes e (a_value a)) args.

(* ================= Part 3: panic-instrumented transcription =================
   [construct_checked bits] follows parse.rs:1022-1227 statement by statement on a machine with
   [bits]-bit usize.  Outcomes:  Val (Some args) = Ok(args),  Val None = Err(..),  Panic = panic.
     `a + b` on usize            -> [uadd]   (debug build: overflow panics; in a release build a
                                              wrapped sum would reach one of the slice checks)
     `offset - 1`                -> [sub_chk]
     `&data[a..b]`               -> [cslice]  (panics unless a <= b <= data.len())
     `&data[a..]`                -> [cslice_from] (panics unless a <= data.len())
     `data[i]`                   -> [cindex]  (panics unless i < data.len())
     a nom parser result         -> [of_pres] (Ok -> value, PPanic -> Panic, everything else Err) *)
Definition uadd (bits a b : N) : chk N := add_chk bits a b.
Definition cslice (data : list byte) (a b : N) : chk (list byte) :=
  if (a <=? b) && (b <=? len data) then Val (slice data a b) else Panic.
Definition cslice_from (data : list byte) (a : N) : chk (list byte) :=
  if a <=? len data then Val (skipn (N.to_nat a) data) else Panic.
Definition cindex (data : list byte) (i : N) : chk byte :=
  if i <? len data then Val (nth (N.to_nat i) data x00) else Panic.
Definition of_pres {A} (x : pres A) : chk (option (A * list byte)) :=
  match x with
  | POk v r => Val (Some (v, r))
  | PPanic => Panic
  | _ => Val None
  end.

Notation "'let!' x := c 'in' k" := (chk_bind c (fun x => k))
  (at level 200, x name, c at level 100, k at level 200, only parsing).
Notation "'let?' ( x , y ) := c 'in' k" :=
  (chk_bind c (fun o => match o with Some (x, y) => k | None => Val None end))
  (at level 200, x name, y name, c at level 100, k at level 200, only parsing).

Definition construct_one_checked (bits : N) (e : endian) (t : type_info) (data : list byte)
    (offset : N) : chk (option (value * option fixed_point * N)) :=
  match ti_kind_of t with
  | KString | KRaw =>
    let! o2 := uadd bits offset 2 in                           (* offset + 2 *)
    if len data <? o2 then Val None
    else
      let! lf := cslice data offset o2 in                      (* &data[offset..offset + 2] *)
      let length := get_uint e lf in                       (* read_u16 as usize *)
      let offset := o2 in                                  (* offset += 2 *)
      let! oe := uadd bits offset length in                    (* offset + length *)
      if len data <? oe then Val None
      else
        let! bs := cslice data offset oe in                    (* data[offset..offset + length] *)
        match ti_kind_of t with
        | KString => if valid_utf8 bs then Val (Some (VString bs, None, oe)) else Val None
        | _ => Val (Some (VRaw bs, None, oe))              (* offset += length *)
        end
  | KBool =>
    let! offset := uadd bits offset 1 in                       (* offset += 1 *)
    if len data <? offset then Val None
    else
      let! i := sub_chk offset 1 in                            (* offset - 1 *)
      let! b := cindex data i in                               (* data[offset - 1] *)
      Val (Some (VBool (b2n b), None, offset))
  | KFloat w =>
    let length := N.of_nat (float_width_bytes w) in        (* width as usize / 8 *)
    let! oe := uadd bits offset length in
    if len data <? oe then Val None
    else
      let! s := cslice data offset oe in                       (* &data[offset..offset + length] *)
      let? (v, _) := of_pres (dlt_fint e w s) in
      Val (Some (v, None, oe))
  | KSigned l =>
    let bl := N.of_nat (type_length_bytes l) in
    let! oe := uadd bits offset bl in
    if len data <? oe then Val None
    else
      let! s := cslice_from data offset in                     (* &data[offset..] *)
      let? (v, _) := of_pres (dlt_sint e l s) in
      Val (Some (v, None, oe))
  | KUnsigned l =>
    let bl := N.of_nat (type_length_bytes l) in
    let! oe := uadd bits offset bl in
    if len data <? oe then Val None
    else
      let! s := cslice_from data offset in
      let? (v, _) := of_pres (dlt_uint e l s) in
      Val (Some (v, None, oe))
  | KSignedFixed w =>
    let bl := N.of_nat (float_width_bytes w) in
    let! oe := uadd bits offset bl in
    if len data <? oe then Val None
    else
      let! s := cslice data offset oe in                       (* &data[offset..offset + byte_length] *)
      let? (fp, value_offset) := of_pres (dlt_fixed_point e w s) in
      let? (v, _) := of_pres (dlt_sint e (float_width_to_type_length w) value_offset) in
      Val (Some (v, Some fp, oe))
  | KUnsignedFixed w =>
    let bl := N.of_nat (float_width_bytes w) in
    let! oe := uadd bits offset bl in
    if len data <? oe then Val None
    else
      let! s := cslice data offset oe in
      let? (fp, value_offset) := of_pres (dlt_fixed_point e w s) in
      let? (v, _) := of_pres (dlt_uint e (float_width_to_type_length w) value_offset) in
      Val (Some (v, Some fp, oe))
  end.

Fixpoint construct_from_checked (bits : N) (e : endian) (tys : list type_info) (data : list byte)
    (offset : N) : chk (option (list argument)) :=
  match tys with
  | [] => Val (Some [])
  | t :: tys' =>
    let! o := construct_one_checked bits e t data offset in
    match o with
    | Some (v, fp, offset') =>
      let! r := construct_from_checked bits e tys' data offset' in
      match r with
      | Some args => Val (Some (mkArg t None None fp v :: args))
      | None => Val None
      end
    | None => Val None
    end
  end.
Definition construct_checked (bits : N) (e : endian) (tys : list type_info) (data : list byte)
  : chk (option (list argument)) := construct_from_checked bits e tys data 0.
