(* WellFormed.v — the domain of C01/C05/C06/C09/C15: well-formed messages, as a *boolean*
   predicate (so examples and generated cases are checked by evaluation).  It spells out
   the quantifier text of C01: ids <= 4 bytes without NUL; names, units and strings
   without NUL; value variant and fixed-point data matching the type info; name/unit
   presence matching the variable-info flag (bool/string/raw: name only); verbose flag,
   argument count, extended-header flag and payload length consistent with the payload;
   canonical codes for the enumerations; total length within the 16-bit length field. *)
From DltV.Model Require Import Bytes Utf8 Dlt.
Open Scope N_scope.

Definition wf_id (s : list byte) : bool :=
  (len s <=? 4) && no_nul s && valid_utf8 s.
Definition wf_text (s : list byte) : bool :=
  (len s <=? 65534) && no_nul s && valid_utf8 s.
Definition wf_opt {A} (p : A -> bool) (o : option A) : bool :=
  match o with Some a => p a | None => true end.
Definition is_some {A} (o : option A) : bool := match o with Some _ => true | None => false end.

Definition wf_coding (c : string_coding) : bool :=
  match c with SReserved v => (2 <=? v) && (v <=? 7) | _ => true end.

Definition wf_log_level (l : log_level) : bool :=
  match l with LInvalid v => (v <? 16) && ((v =? 0) || (7 <=? v)) | _ => true end.
Definition wf_mtype (t : message_type) : bool :=
  match t with
  | MLog l => wf_log_level l
  | MAppTrace (AInvalid n) => (n <? 16) && ((n =? 0) || (6 <=? n))
  | MNwTrace (NUserDefined n) => (7 <=? n) && (n <? 16)
  | MControl (CUnknown n) => (n <? 16) && ((n =? 0) || (3 <=? n))
  | MUnknown mstp mtin => (4 <=? mstp) && (mstp <? 8) && (mtin <? 16)
  | _ => true
  end.
Definition wf_control_id (c : control_type) : bool :=
  match c with CUnknown n => (n <? 256) && negb (n =? 1) && negb (n =? 2) | _ => true end.

Definition type_length_bits_n (l : type_length) : N :=
  match l with BL8 => 8 | BL16 => 16 | BL32 => 32 | BL64 => 64 | BL128 => 128 end.

Definition wf_unsigned_value (l : type_length) (v : value) : bool :=
  match l, v with
  | BL8, VU8 n => n <? 2 ^ 8 | BL16, VU16 n => n <? 2 ^ 16 | BL32, VU32 n => n <? 2 ^ 32
  | BL64, VU64 n => n <? 2 ^ 64 | BL128, VU128 n => n <? 2 ^ 128
  | _, _ => false
  end.
Definition wf_signed_value (l : type_length) (v : value) : bool :=
  match l, v with
  | BL8, VI8 z => in_signed 8 z | BL16, VI16 z => in_signed 16 z | BL32, VI32 z => in_signed 32 z
  | BL64, VI64 z => in_signed 64 z | BL128, VI128 z => in_signed 128 z
  | _, _ => false
  end.
Definition wf_fp (w : float_width) (f : option fixed_point) : bool :=
  match f with
  | Some fp =>
    (fp_quant fp <? 2 ^ 32) &&
    match w, fp_offset fp with
    | W32, FI32 z => in_signed 32 z
    | W64, FI64 z => in_signed 64 z
    | _, _ => false
    end
  | None => false
  end.
Definition is_none {A} (o : option A) : bool := match o with None => true | Some _ => false end.

Definition wf_arg (a : argument) : bool :=
  let t := a_ti a in
  let vari := ti_var_info t in
  let name_only :=
    Bool.eqb (is_some (a_name a)) vari && is_none (a_unit a) && wf_opt wf_text (a_name a) in
  let name_unit :=
    Bool.eqb (is_some (a_name a)) vari && Bool.eqb (is_some (a_unit a)) vari
    && wf_opt wf_text (a_name a) && wf_opt wf_text (a_unit a) in
  wf_coding (ti_coding t) &&
  match ti_kind_of t with
  | KBool => name_only && is_none (a_fp a) && match a_value a with VBool n => n <? 256 | _ => false end
  | KSigned l => name_unit && is_none (a_fp a) && wf_signed_value l (a_value a)
  | KUnsigned l => name_unit && is_none (a_fp a) && wf_unsigned_value l (a_value a)
  | KSignedFixed w => name_unit && wf_fp w (a_fp a) && wf_signed_value (float_width_to_type_length w) (a_value a)
  | KUnsignedFixed w => name_unit && wf_fp w (a_fp a) && wf_unsigned_value (float_width_to_type_length w) (a_value a)
  | KFloat W32 => name_unit && is_none (a_fp a) && match a_value a with VF32 b => b <? 2 ^ 32 | _ => false end
  | KFloat W64 => name_unit && is_none (a_fp a) && match a_value a with VF64 b => b <? 2 ^ 64 | _ => false end
  | KString => name_only && is_none (a_fp a) && match a_value a with VString s => wf_text s | _ => false end
  | KRaw => name_only && is_none (a_fp a) && match a_value a with VRaw bs => len bs <=? 65535 | _ => false end
  end.

Definition is_nw_trace (t : message_type) : bool := match t with MNwTrace _ => true | _ => false end.
Definition is_control (t : message_type) : bool := match t with MControl _ => true | _ => false end.

(* verbose flag, NOAR, UEH consistent with the payload kind *)
Definition wf_kind (x : option ext_header) (p : payload) : bool :=
  match p, x with
  | PVerbose args, Some e =>
    e_verbose e && (e_noar e =? len args) && (len args <=? 255) && negb (is_nw_trace (e_mtype e))
    && forallb wf_arg args
  | PNetworkTrace sl, Some e =>
    e_verbose e && (e_noar e =? len sl) && (len sl <=? 255) && is_nw_trace (e_mtype e)
    && forallb (fun s => len s <=? 65535) sl
  | PControl ct _, Some e => negb (e_verbose e) && is_control (e_mtype e) && wf_control_id ct
  | PNonVerbose id _, Some e => negb (e_verbose e) && negb (is_control (e_mtype e)) && (id <? 2 ^ 32)
  | PNonVerbose id _, None => id <? 2 ^ 32
  | _, None => false
  end.

Definition wf_ext (x : ext_header) : bool :=
  (e_noar x <? 256) && wf_mtype (e_mtype x) && wf_id (e_apid x) && wf_id (e_ctid x).

Definition wf_std (h : std_header) : bool :=
  (h_version h <? 8) && (h_mcnt h <? 256) && wf_opt wf_id (h_ecu h)
  && wf_opt (fun v => v <? 2 ^ 32) (h_session h) && wf_opt (fun v => v <? 2 ^ 32) (h_timestamp h).

Definition wf_storage (s : storage_header) : bool :=
  (ts_secs (sh_ts s) <? 2 ^ 32) && (ts_micros (sh_ts s) <? 2 ^ 32) && wf_id (sh_ecu s).

(* payload length = serialised payload, and the total fits the 16-bit length field *)
Definition len_ok (m : message) : bool :=
  (h_payload_length (m_header m) =? len (payload_bytes (h_endian (m_header m)) (m_payload m)))
  && (overall_length_raw (m_header m) <=? 65535).

Definition wf_message (m : message) : bool :=
  wf_opt wf_storage (m_storage m) && wf_std (m_header m)
  && Bool.eqb (h_has_ext (m_header m)) (is_some (m_ext m))
  && wf_opt wf_ext (m_ext m) && wf_kind (m_ext m) (m_payload m) && len_ok m.
