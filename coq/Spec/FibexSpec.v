(* FibexSpec.v — what a set of FIBEX documents MEANS, independently of how the crate reads them.

   [afibex] is an abstract FIBEX model; [render_element] turns one top-level element into the
   canonical XML event shape of tests/dlt-messages.xml; a [layout] distributes the elements over
   files in some order; [denote] computes the expected loader result from the elements in their
   order of definition, declaratively: instances ordered by sequence number (stably), signal
   types from the standard names or through signal -> coding -> base data type, unknown signal
   references skipped, a dangling PDU reference = no model at all, and (because the result maps
   are read with first-match lookups) the first definition of a frame or PDU id wins. *)
From Coq Require Import Sorting.Permutation.
From Coq.Strings Require Import Ascii String.
From DltV.Model Require Import Bytes RustInt Dlt Fibex.
Open Scope N_scope.

(* ---------- the abstract model ---------- *)
Record apdu := mkAPdu {
  ap_id : bstr;
  ap_short_name : bstr;
  ap_desc : option bstr;
  ap_byte_length : N;
  ap_signals : list (N * bstr) }.             (* (sequence number, signal ref), document order *)

Record aframe := mkAFrame {
  af_id : bstr;
  af_short_name : bstr;
  af_byte_length : N;
  af_application_id : option bstr;
  af_context_id : option bstr;
  af_message_type : option bstr;
  af_message_info : option bstr;
  af_pdus : list (N * bstr) }.                (* (sequence number, pdu ref), document order *)

Record afibex := mkAFibex {
  a_frames : list aframe;
  a_pdus : list apdu;
  a_signals : list (bstr * bstr);             (* signal id, coding ref *)
  a_codings : list (bstr * bstr) }.           (* coding id, base data type *)

(* one top-level FIBEX element *)
Inductive element :=
| ElPdu (p : apdu)
| ElFrame (f : aframe)
| ElSignal (id coding_ref : bstr)
| ElCoding (id base_data_type : bstr).

Definition render_elements (a : afibex) : list element :=
  map ElPdu (a_pdus a) ++ map ElFrame (a_frames a)
  ++ map (fun s => ElSignal (fst s) (snd s)) (a_signals a)
  ++ map (fun c => ElCoding (fst c) (snd c)) (a_codings a).

(* ---------- canonical event shape ---------- *)
Definition text_el (name : string) (t : bstr) : list xevent :=
  [XStart (bs name) []; XText (Some t); XEnd (bs name)].
Definition opt_text_el (name : string) (o : option bstr) : list xevent :=
  match o with Some t => text_el name t | None => [] end.
Definition id_attr_of (v : bstr) : xattr := Attr (bs "ID") (Some v).
Definition id_ref_attr_of (v : bstr) : xattr := Attr (bs "ID-REF") (Some v).
Definition instance_id : bstr := bs "I".       (* instance ids are required but never used *)

(* <fx:SIGNAL-INSTANCE ID=..><fx:SEQUENCE-NUMBER>n</..><fx:SIGNAL-REF ID-REF=../></..> *)
Definition render_signal_instance (i : N * bstr) : list xevent :=
  [XStart (bs "SIGNAL-INSTANCE") [id_attr_of instance_id]]
  ++ text_el "SEQUENCE-NUMBER" (decimal (fst i))
  ++ [XEmpty (bs "SIGNAL-REF") [id_ref_attr_of (snd i)]; XEnd (bs "SIGNAL-INSTANCE")].

(* <fx:PDU-INSTANCE ID=..><fx:PDU-REF ID-REF=../><fx:SEQUENCE-NUMBER>n</..></..> *)
Definition render_pdu_instance (i : N * bstr) : list xevent :=
  [XStart (bs "PDU-INSTANCE") [id_attr_of instance_id]; XEmpty (bs "PDU-REF") [id_ref_attr_of (snd i)]]
  ++ text_el "SEQUENCE-NUMBER" (decimal (fst i))
  ++ [XEnd (bs "PDU-INSTANCE")].

Definition render_pdu (p : apdu) : list xevent :=
  [XStart (bs "PDU") [id_attr_of (ap_id p)]]
  ++ text_el "SHORT-NAME" (ap_short_name p)
  ++ opt_text_el "DESC" (ap_desc p)
  ++ text_el "BYTE-LENGTH" (decimal (ap_byte_length p))
  ++ text_el "PDU-TYPE" (bs "OTHER")
  ++ [XStart (bs "SIGNAL-INSTANCES") []]
  ++ flat_map render_signal_instance (ap_signals p)
  ++ [XEnd (bs "SIGNAL-INSTANCES"); XEnd (bs "PDU")].

Definition render_frame (f : aframe) : list xevent :=
  [XStart (bs "FRAME") [id_attr_of (af_id f)]]
  ++ text_el "SHORT-NAME" (af_short_name f)
  ++ text_el "BYTE-LENGTH" (decimal (af_byte_length f))
  ++ text_el "FRAME-TYPE" (bs "OTHER")
  ++ [XStart (bs "PDU-INSTANCES") []]
  ++ flat_map render_pdu_instance (af_pdus f)
  ++ [XEnd (bs "PDU-INSTANCES"); XStart (bs "MANUFACTURER-EXTENSION") []]
  ++ opt_text_el "MESSAGE_TYPE" (af_message_type f)
  ++ opt_text_el "MESSAGE_INFO" (af_message_info f)
  ++ opt_text_el "APPLICATION_ID" (af_application_id f)
  ++ opt_text_el "CONTEXT_ID" (af_context_id f)
  ++ [XEnd (bs "MANUFACTURER-EXTENSION"); XEnd (bs "FRAME")].

Definition render_element (e : element) : list xevent :=
  match e with
  | ElPdu p => render_pdu p
  | ElFrame f => render_frame f
  | ElSignal id coding_ref =>
    [XStart (bs "SIGNAL") [id_attr_of id]; XEmpty (bs "CODING-REF") [id_ref_attr_of coding_ref];
     XEnd (bs "SIGNAL")]
  | ElCoding id base =>
    [XStart (bs "CODING") [id_attr_of id];
     XStart (bs "CODED-TYPE") [Attr (bs "ho:BASE-DATA-TYPE") (Some base)]; XEnd (bs "CODED-TYPE");
     XEnd (bs "CODING")]
  end.

(* ---------- layouts: any order, any split over files ---------- *)
Definition layout := list (list element).          (* one list of elements per file *)
Definition is_layout_of (a : afibex) (l : layout) : Prop :=
  l <> [] /\ Permutation (concat l) (render_elements a).
Definition files_of (l : layout) : list xfile :=
  map (fun els => FileEvents (flat_map render_element els)) l.

(* ---------- side conditions under which the canonical shape says what it means ---------- *)
(* an element's text must be non-empty (otherwise there is no Text event at all), numbers must
   fit a usize *)
Definition nonempty (t : bstr) : bool := match t with [] => false | _ :: _ => true end.
Definition opt_nonempty (o : option bstr) : bool := match o with Some t => nonempty t | None => true end.
Definition seqs_ok (l : list (N * bstr)) : bool := forallb (fun i => fst i <? 2 ^ 64) l.

Definition element_ok (e : element) : bool :=
  match e with
  | ElPdu p =>
    nonempty (ap_short_name p) && opt_nonempty (ap_desc p) && (ap_byte_length p <? 2 ^ 64)
    && seqs_ok (ap_signals p)
  | ElFrame f =>
    nonempty (af_short_name f) && (af_byte_length f <? 2 ^ 64)
    && opt_nonempty (af_application_id f) && opt_nonempty (af_context_id f)
    && opt_nonempty (af_message_type f) && opt_nonempty (af_message_info f)
    && seqs_ok (af_pdus f)
  | ElSignal _ _ | ElCoding _ _ => true
  end.
Definition elements_ok (els : list element) : bool := forallb element_ok els.

(* ---------- the meaning ---------- *)
Definition el_pdus (els : list element) : list apdu :=
  filter_map (fun e => match e with ElPdu p => Some p | _ => None end) els.
Definition el_frames (els : list element) : list aframe :=
  filter_map (fun e => match e with ElFrame f => Some f | _ => None end) els.
Definition el_signals (els : list element) : list (bstr * bstr) :=
  filter_map (fun e => match e with ElSignal i c => Some (i, c) | _ => None end) els.
Definition el_codings (els : list element) : list (bstr * bstr) :=
  filter_map (fun e => match e with ElCoding i b => Some (i, b) | _ => None end) els.

(* signals and codings live in overwrite-on-insert maps: the LAST definition of an id counts *)
Definition last_def {V} (k : bstr) (l : list (bstr * V)) : option V := assoc_get k (rev l).

Definition plain (k : ti_kind) (c : string_coding) : type_info := mkTI k c false false.

Definition standard_signals : list (bstr * option type_info) :=
  [ (bs "S_BOOL", Some (plain KBool SAscii));
    (bs "S_SINT8", Some (plain (KSigned BL8) SAscii));
    (bs "S_UINT8", Some (plain (KUnsigned BL8) SAscii));
    (bs "S_SINT16", Some (plain (KSigned BL16) SAscii));
    (bs "S_UINT16", Some (plain (KUnsigned BL16) SAscii));
    (bs "S_SINT32", Some (plain (KSigned BL32) SAscii));
    (bs "S_UINT32", Some (plain (KUnsigned BL32) SAscii));
    (bs "S_SINT64", Some (plain (KSigned BL64) SAscii));
    (bs "S_UINT64", Some (plain (KUnsigned BL64) SAscii));
    (bs "S_FLOA16", None);                                         (* known, unsupported *)
    (bs "S_FLOA32", Some (plain (KFloat W32) SAscii));
    (bs "S_FLOA64", Some (plain (KFloat W64) SAscii));
    (bs "S_STRG_ASCII", Some (plain KString SAscii));
    (bs "S_STRG_UTF8", Some (plain KString SUtf8));
    (bs "S_RAWD", Some (plain KRaw SAscii));
    (bs "S_RAW", Some (plain KRaw SAscii)) ].

Definition base_data_types : list (bstr * type_info) :=
  [ (bs "A_UINT8", plain (KUnsigned BL8) SAscii);
    (bs "A_INT8", plain (KSigned BL8) SAscii);
    (bs "A_SINT8", plain (KSigned BL8) SAscii);
    (bs "A_UINT16", plain (KUnsigned BL16) SAscii);
    (bs "A_INT16", plain (KSigned BL16) SAscii);
    (bs "A_SINT16", plain (KSigned BL16) SAscii);
    (bs "A_UINT32", plain (KUnsigned BL32) SAscii);
    (bs "A_INT32", plain (KSigned BL32) SAscii);
    (bs "A_SINT32", plain (KSigned BL32) SAscii);
    (bs "A_UINT64", plain (KUnsigned BL64) SAscii);
    (bs "A_INT64", plain (KSigned BL64) SAscii);
    (bs "A_SINT64", plain (KSigned BL64) SAscii);
    (bs "A_FLOAT32", plain (KFloat W32) SAscii);
    (bs "A_FLOAT64", plain (KFloat W64) SAscii);
    (bs "A_ASCIISTRING", plain KString SAscii);
    (bs "A_UNICODE2STRING", plain KString SUtf8) ].

(* the type of a signal reference; None = the reference is skipped *)
Definition signal_type (els : list element) (signal_ref : bstr) : option type_info :=
  match assoc_get signal_ref standard_signals with
  | Some t => t
  | None =>
    match last_def signal_ref (el_signals els) with
    | Some coding_ref =>
      match last_def coding_ref (el_codings els) with
      | Some base => assoc_get base base_data_types
      | None => None
      end
    | None => None
    end
  end.

(* the refs of a list of instances in sequence-number order (stable) *)
Definition ordered_refs (instances : list (N * bstr)) : list bstr := map snd (sort_by_key instances).

Definition denote_pdu (els : list element) (p : apdu) : pdu_metadata :=
  mkPdu (ap_desc p) (filter_map (signal_type els) (ordered_refs (ap_signals p))).

(* all PDU definitions in order of definition; read with first-match lookup *)
Definition pdu_table (els : list element) : list (bstr * pdu_metadata) :=
  map (fun p => (ap_id p, denote_pdu els p)) (el_pdus els).

Fixpoint all_some {A} (l : list (option A)) : option (list A) :=
  match l with
  | [] => Some []
  | None :: _ => None
  | Some a :: t => match all_some t with Some r => Some (a :: r) | None => None end
  end.

(* None = the frame references a PDU nobody defines *)
Definition denote_frame (els : list element) (f : aframe) : option frame_metadata :=
  match all_some (map (fun r => assoc_get r (pdu_table els)) (ordered_refs (af_pdus f))) with
  | Some pdus =>
    Some (mkFrame (af_short_name f) pdus (af_application_id f) (af_context_id f)
                  (af_message_type f) (af_message_info f))
  | None => None
  end.

Definition keyed_entry (fm : aframe * frame_metadata) : option (frame_key * frame_metadata) :=
  match af_context_id (fst fm), af_application_id (fst fm) with
  | Some c, Some a => Some ((c, a, af_id (fst fm)), snd fm)
  | _, _ => None
  end.

(* the expected loader result for elements in this order of definition (file after file, each in
   document order); None = loading must fail.  Both maps list ALL definitions in order and are
   read with first-match lookups, i.e. the first definition of a duplicated id wins. *)
Definition denote (els : list element) : option fibex_metadata :=
  match all_some (map (fun f => option_map (fun m => (f, m)) (denote_frame els f)) (el_frames els)) with
  | Some fms =>
    Some (mkMeta (filter_map keyed_entry fms) (map (fun fm => (af_id (fst fm), snd fm)) fms))
  | None => None
  end.

(* two results are the same model when every lookup agrees *)
Definition meta_equiv (m1 m2 : fibex_metadata) : Prop :=
  (forall k, assoc_get k (frame_map m1) = assoc_get k (frame_map m2)) /\
  (forall k, key_get k (frame_map_with_key m1) = key_get k (frame_map_with_key m2)).

(* consistency: every PDU a frame refers to is defined by some PDU element *)
Definition pdu_defined (els : list element) (r : bstr) : bool :=
  existsb (fun p => bytes_eqb r (ap_id p)) (el_pdus els).
Definition refs_defined (els : list element) : bool :=
  forallb (fun f => forallb (fun i => pdu_defined els (snd i)) (af_pdus f)) (el_frames els).

(* ids unique per kind: then the order of definition cannot matter *)
Definition ids_of (els : list element) : list bstr * list bstr * list bstr * list bstr :=
  (map ap_id (el_pdus els), map af_id (el_frames els), map fst (el_signals els), map fst (el_codings els)).
