(* Spec/FilterSpec.v — the drop rule of property C09, written from the sentence of the
   property (NOT from parse.rs `filtered_out`), on the RAW filter configuration
   (DltFilterConfig: numeric minimum level, id lists with possible duplicates).

   "a message is replaced by a filtered-out marker exactly when its headers fail the
    configuration: it is a log message with a valid level less severe than the minimum, or
    its application id / context id is not in the allowed set, or its header ECU id is
    present and not in the allowed set; a message without extended header is dropped
    exactly when an application or context id set is given that is smaller than the
    declared total count. [...] numeric minimum levels outside 1..6 mean no level filtering."

   Definitions only. *)
From DltV.Model Require Import Bytes Dlt Parse.
Open Scope N_scope.

(* the number of a valid log level as in the AUTOSAR table quoted in filtering.rs
   (1 = FATAL ... 6 = VERBOSE; larger = less severe); invalid levels have none *)
Definition level_number (l : log_level) : option N :=
  match l with
  | Fatal => Some 1 | LError => Some 2 | Warn => Some 3 | Info => Some 4
  | Debug => Some 5 | Verbose => Some 6 | LInvalid _ => None
  end.

(* "a log message with a valid level less severe than the minimum";
   a numeric minimum outside 1..6 means no level filtering *)
Definition spec_level_dropped (min : option N) (t : message_type) : bool :=
  match min, t with
  | Some v, MLog l =>
    match level_number l with
    | Some n => (1 <=? v) && (v <=? 6) && (v <? n)
    | None => false
    end
  | _, _ => false
  end.

(* membership in a raw id list *)
Definition id_in (x : list byte) (l : list (list byte)) : bool := existsb (bytes_eqb x) l.

(* "its id is not in the allowed set" — no set given means everything is allowed *)
Definition not_allowed (allowed : option (list (list byte))) (id : list byte) : bool :=
  match allowed with
  | Some l => negb (id_in id l)
  | None => false
  end.

(* size of the SET denoted by a raw list: number of distinct ids *)
Definition bytes_eq_dec : forall a b : list byte, {a = b} + {a <> b} := list_eq_dec Byte.byte_eq_dec.
Definition distinct_count (l : list (list byte)) : nat := length (nodup bytes_eq_dec l).

(* "a set is given that is smaller than the declared total count" *)
Definition smaller_than_count (allowed : option (list (list byte))) (count : Z) : bool :=
  match allowed with
  | Some l => (Z.of_nat (distinct_count l) <? count)%Z
  | None => false
  end.

Definition spec_dropped (cfg : filter_config) (m : message) : bool :=
  match m_ext m with
  | Some x =>
    spec_level_dropped (fc_min_log_level cfg) (e_mtype x)
    || not_allowed (fc_app_ids cfg) (e_apid x)
    || not_allowed (fc_context_ids cfg) (e_ctid x)
    || (match h_ecu (m_header m) with
        | Some ecu => not_allowed (fc_ecu_ids cfg) ecu
        | None => false
        end)
  | None =>
    smaller_than_count (fc_app_ids cfg) (fc_app_id_count cfg)
    || smaller_than_count (fc_context_ids cfg) (fc_context_id_count cfg)
  end.

(* ---- the hand-built ProcessedDltFilterConfig with an Invalid minimum level ----
   (cannot be produced by either conversion; dlt.rs:546-556 decides it explicitly)
   table: message level valid/invalid x minimum valid/invalid *)
Definition spec_skip_table (msg_level min : log_level) : bool :=
  match level_number msg_level, level_number min with
  | Some n, Some v => v <? n                      (* both valid: less severe than the minimum *)
  | Some _, None => true                          (* valid message level, invalid minimum: dropped *)
  | None, Some _ => false                         (* invalid message level, valid minimum: kept *)
  | None, None =>                                 (* both invalid: raw numbers compared *)
    match msg_level, min with
    | LInvalid a, LInvalid b => a <? b
    | _, _ => false
    end
  end.
